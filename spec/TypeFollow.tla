----------------------------- MODULE TypeFollow -----------------------------
(***************************************************************************)
(* Type following and argument normalisation (func_adl/type_based_          *)
(* replacement.py, util_types.py) as a specification.                      *)
(*                                                                         *)
(* Part 1 (C10): the untyped case.  On a stream with no type information   *)
(* the emitted lambda is the given lambda; the only refusals are the       *)
(* designed ones.  Trigger(e) over-approximates "e contains a construct    *)
(* for which a refusal is designed" (DESIGN.md A.4): over-approximating    *)
(* it can only weaken the check, never raise a false alarm.                *)
(***************************************************************************)
EXTENDS Terms

(* the type the all-Any follower gives is int / float / Any *)
RECURSIVE Numish(_)
Numish(e) ==
    CASE e.k \in {"int", "float", "name"} -> TRUE
      [] e.k = "attr"  -> e.a[1].k # "dict"
      [] e.k = "sub"   -> e.a[1].k \notin {"tuple", "dict"}
      [] e.k = "call"  -> TRUE
      [] e.k = "binop" -> TRUE
      [] e.k = "unop"  -> e.s # "not" /\ Numish(e.a[1])
      [] e.k = "ifexp" -> Numish(e.a[2]) /\ Numish(e.a[3])
      [] OTHER -> FALSE
(* the follower gives bool *)
RECURSIVE Boolish(_)
Boolish(e) ==
    CASE e.k \in {"cmp", "boolop", "bool"} -> TRUE
      [] e.k = "unop"  -> e.s = "not"
      [] e.k = "ifexp" -> Boolish(e.a[2]) /\ Boolish(e.a[3])
      [] OTHER -> FALSE

DictKeys(d) == {d.a[2 * i - 1] : i \in 1..(Len(d.a) \div 2)}

TriggerHere(e) ==
    \/ (e.k = "ifexp" /\ ~(Numish(e.a[2]) /\ Numish(e.a[3])) /\ ~(Boolish(e.a[2]) /\ Boolish(e.a[3]))
                      /\ ~(e.a[2].k = "str" /\ e.a[3].k = "str"))
    \/ e.k \in {"none", "const", "opaque"}                  \* non-transportable constant
    \/ (e.k = "sub" /\ e.a[1].k = "tuple" /\
           ~(e.a[2].k = "int" /\ e.a[2].n >= 0 /\ e.a[2].n < Len(e.a[1].a)))
    \/ (e.k = "sub" /\ e.a[1].k = "dict" /\ ~(e.a[2].k \in {"str", "int"} /\ e.a[2] \in DictKeys(e.a[1])))
    \/ (e.k = "attr" /\ e.a[1].k = "dict" /\ StrC(e.s) \notin DictKeys(e.a[1]))
    \/ (e.k = "dict" /\ \E ky \in DictKeys(e) : ky.k \notin {"str", "int", "bool", "float"})

RECURSIVE Trigger(_)
Trigger(e) == TriggerHere(e) \/ \E i \in 1..Len(e.a) : Trigger(e.a[i])

(* outcome classes: "unchanged", "ValueError"; anything else is never allowed *)
AllowedUntyped(op, lam) ==
    LET body == lam.a[1]
        mayRefuse == Trigger(body) \/ (op = "Where" /\ body.k \notin {"cmp", "boolop"})
    IN IF mayRefuse THEN {"unchanged", "ValueError"} ELSE {"unchanged"}

---------------------------------------------------------------------------
(* Part 2 (C07): typed call sites are normalised to full positional form.   *)
(* A case fixes a signature [n, r, dk] (n parameters a, b, c, .., the first *)
(* r required, defaults of kind dk), and a call shape [npos, kws].          *)
(* Rendering convention shared with the harness:                            *)
(*   i-th positional value = 10 + i, keyword value for parameter j = 30 + j,*)
(*   default of parameter j = 20 + j (int) or "d<j>" (str).                 *)
PNames == <<"a", "b", "c", "d">>
PosVal(i) == IntC(10 + i)
KwVal(j)  == IntC(30 + j)
DefVal(sig, j) == IF sig.dk = "int" THEN IntC(20 + j)
                  ELSE StrC(CASE j = 1 -> "d1" [] j = 2 -> "d2" [] j = 3 -> "d3" [] OTHER -> "d4")
InSeq(x, sq) == \E i \in 1..Len(sq) : sq[i] = x

(* Python's own binding (inspect.Signature.bind + apply_defaults) *)
Missing(sig, sh) == \E j \in (sh.npos + 1)..sig.n : j <= sig.r /\ ~InSeq(PNames[j], sh.kws)
Normalized(sig, sh) ==
    [j \in 1..sig.n |->
        IF j <= sh.npos THEN PosVal(j)
        ELSE IF InSeq(PNames[j], sh.kws) THEN KwVal(j)
        ELSE DefVal(sig, j)]

(* all calls of method / function mname in a term *)
RECURSIVE CallsOf(_, _)
CallsOf(t, mname) ==
    (IF IsMethOf(t, mname) \/ IsCallOf(t, mname) THEN {t} ELSE {})
      \cup UNION {CallsOf(t.a[i], mname) : i \in 1..Len(t.a)}

(* the library's own operators inside lambdas keep exactly the user's arguments *)
RECURSIVE OperatorsUntouched(_)
OperatorsUntouched(t) ==
    /\ (IsMeth(t) /\ t.a[1].s \in {"Select", "SelectMany", "Where"}) => (t.n = 1 /\ t.p = <<>>)
    /\ (IsMeth(t) /\ t.a[1].s \in {"First", "Count"}) => (t.n = 0 /\ t.p = <<>>)
    /\ \A i \in 1..Len(t.a) : OperatorsUntouched(t.a[i])

=============================================================================
