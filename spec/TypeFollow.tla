----------------------------- MODULE TypeFollow -----------------------------
(***************************************************************************)
(* Type following and argument normalisation (func_adl/type_based_          *)
(* replacement.py, util_types.py) as a specification.                      *)
(*                                                                         *)
(* Part 1 (C10): the untyped case.  On a stream with no type information   *)
(* the emitted lambda is the given lambda; the only refusals are the       *)
(* designed ones.  Trigger(e) over-approximates "e contains a construct    *)
(* for which a refusal is designed" (DESIGN.md A.4): over-approximating    *)
(* it can only weaken the check, never raise a false alarm.                *)
(***************************************************************************)
EXTENDS Terms

(* value stored under a constant key of a dict literal (absent if the key is not defined once) *)
DictValue(d, key) ==
    LET n == Len(d.a) \div 2
        hits == {i \in 1..n : d.a[2 * i - 1] = key}
    IN IF Cardinality(hits) = 1 /\ \A i \in 1..n : d.a[2 * i - 1].k = "str"
       THEN d.a[2 * (CHOOSE i \in hits : TRUE)] ELSE Absent
(* the type the all-Any follower gives is int / float / Any *)
RECURSIVE Numish(_)
Numish(e) ==
    CASE e.k \in {"int", "float", "name"} -> TRUE
      [] e.k = "attr"  -> IF e.a[1].k = "dict" THEN Numish(DictValue(e.a[1], StrC(e.s))) ELSE TRUE
      [] e.k = "sub"   -> IF e.a[1].k = "dict" THEN e.a[2].k = "str" /\ Numish(DictValue(e.a[1], e.a[2]))
                          ELSE e.a[1].k # "tuple"
      [] e.k = "call"  -> TRUE
      [] e.k = "binop" -> TRUE
      [] e.k = "unop"  -> e.s # "not" /\ Numish(e.a[1])
      [] e.k = "ifexp" -> Numish(e.a[2]) /\ Numish(e.a[3])
      [] OTHER -> FALSE
(* the follower gives bool *)
RECURSIVE Boolish(_)
Boolish(e) ==
    CASE e.k \in {"cmp", "boolop", "bool"} -> TRUE
      [] e.k = "unop"  -> e.s = "not"
      [] e.k = "ifexp" -> Boolish(e.a[2]) /\ Boolish(e.a[3])
      [] OTHER -> FALSE

DictKeys(d) == {d.a[2 * i - 1] : i \in 1..(Len(d.a) \div 2)}

TriggerHere(e) ==
    \/ (e.k = "ifexp" /\ ~(Numish(e.a[2]) /\ Numish(e.a[3])) /\ ~(Boolish(e.a[2]) /\ Boolish(e.a[3]))
                      /\ ~(e.a[2].k = "str" /\ e.a[3].k = "str"))
    \/ e.k \in {"none", "const", "opaque"}                  \* non-transportable constant
    \/ (e.k = "sub" /\ e.a[1].k = "tuple" /\
           ~(e.a[2].k = "int" /\ e.a[2].n >= 0 /\ e.a[2].n < Len(e.a[1].a)))
    \/ (e.k = "sub" /\ e.a[1].k = "dict" /\ ~(e.a[2].k \in {"str", "int"} /\ e.a[2] \in DictKeys(e.a[1])))
    \/ (e.k = "attr" /\ e.a[1].k = "dict" /\ StrC(e.s) \notin DictKeys(e.a[1]))
    \/ (e.k = "dict" /\ \E ky \in DictKeys(e) : ky.k \notin {"str", "int", "bool", "float"})

RECURSIVE Trigger(_)
Trigger(e) == TriggerHere(e) \/ \E i \in 1..Len(e.a) : Trigger(e.a[i])

(* outcome classes: "unchanged", "ValueError"; anything else is never allowed *)
AllowedUntyped(op, lam) ==
    LET body == lam.a[1]
        mayRefuse == Trigger(body) \/ (op = "Where" /\ body.k \notin {"cmp", "boolop"})
    IN IF mayRefuse THEN {"unchanged", "ValueError"} ELSE {"unchanged"}

---------------------------------------------------------------------------
(* Part 2 (C07): typed call sites are normalised to full positional form.   *)
(* A case fixes a signature [n, r, dk] (n parameters a, b, c, .., the first *)
(* r required, defaults of kind dk), and a call shape [npos, kws].          *)
(* Rendering convention shared with the harness:                            *)
(*   i-th positional value = 10 + i, keyword value for parameter j = 30 + j,*)
(*   default of parameter j = 20 + j (int) or "d<j>" (str).                 *)
PNames == <<"a", "b", "c", "d">>
PosVal(i) == IntC(10 + i)
KwVal(j)  == IntC(30 + j)
DefVal(sig, j) == IF sig.dk = "int" THEN IntC(20 + j)
                  ELSE StrC(CASE j = 1 -> "d1" [] j = 2 -> "d2" [] j = 3 -> "d3" [] OTHER -> "d4")
InSeq(x, sq) == \E i \in 1..Len(sq) : sq[i] = x

(* Python's own binding (inspect.Signature.bind + apply_defaults) *)
Missing(sig, sh) == \E j \in (sh.npos + 1)..sig.n : j <= sig.r /\ ~InSeq(PNames[j], sh.kws)
Normalized(sig, sh) ==
    [j \in 1..sig.n |->
        IF j <= sh.npos THEN PosVal(j)
        ELSE IF InSeq(PNames[j], sh.kws) THEN KwVal(j)
        ELSE DefVal(sig, j)]

(* all calls of method / function mname in a term *)
RECURSIVE CallsOf(_, _)
CallsOf(t, mname) ==
    (IF IsMethOf(t, mname) \/ IsCallOf(t, mname) THEN {t} ELSE {})
      \cup UNION {CallsOf(t.a[i], mname) : i \in 1..Len(t.a)}

(* the library's own operators inside lambdas keep exactly the user's arguments *)
RECURSIVE OperatorsUntouched(_)
OperatorsUntouched(t) ==
    /\ (IsMeth(t) /\ t.a[1].s \in {"Select", "SelectMany", "Where"}) => (t.n = 1 /\ t.p = <<>>)
    /\ (IsMeth(t) /\ t.a[1].s \in {"First", "Count"}) => (t.n = 0 /\ t.p = <<>>)
    /\ \A i \in 1..Len(t.a) : OperatorsUntouched(t.a[i])

---------------------------------------------------------------------------
(* Part 3 (C08): type following yields the declared types.                  *)
(* Types are terms too:  ty(name; args)  tv(name)  noann  rec(p = field     *)
(* names; field types).  A universe is a sequence of classes                *)
(*   [name, params, base (a type or noann), methods: Seq([name, ret])]      *)
(* in dependency order; single inheritance; Iterable[T] is the root of all  *)
(* iterables; collection operators (First, Count, Select, Where,            *)
(* SelectMany and those a registered collection class adds) are available   *)
(* on every iterable.                                                       *)
Ty(nm, as) == T("ty", nm, 0, <<>>, as)
Ty0(nm)    == Ty(nm, <<>>)
TVar(v)    == T("tv", v, 0, <<>>, <<>>)
NoAnn      == T("noann", "", 0, <<>>, <<>>)
AnyT   == Ty0("Any")
IntT   == Ty0("int")
FloatT == Ty0("float")
BoolT  == Ty0("bool")
StrT   == Ty0("str")
Iter(x) == Ty("Iterable", <<x>>)
RecT(fields, tys) == T("rec", "", 0, fields, tys)
Mth(nm, ret) == [name |-> nm, ret |-> ret]
Cls(nm, params, base, methods) == [name |-> nm, params |-> params, base |-> base, methods |-> methods,
                                   fields |-> <<>>]
(* a dataclass: typed fields read as attributes (rendered with string annotations), plus methods *)
DCls(nm, fields, methods) == [name |-> nm, params |-> <<>>, base |-> NoAnn, methods |-> methods, fields |-> fields]

Universe == <<
    Cls("Trk", <<>>, NoAnn, <<Mth("pt", FloatT), Mth("q", IntT)>>),
    Cls("Jet", <<>>, NoAnn, <<Mth("pt", FloatT), Mth("n", IntT), Mth("good", BoolT),
                              Mth("trks", Iter(Ty0("Trk"))), Mth("noann", NoAnn)>>),
    Cls("Box", <<"T">>, NoAnn, <<Mth("item", TVar("T")), Mth("items", Iter(TVar("T"))), Mth("size", IntT),
                                 \* the class type variable two layers deep / inside another generic class
                                 Mth("nested", Iter(Iter(TVar("T")))), Mth("boxes", Iter(Ty("Box", <<TVar("T")>>)))>>),
    Cls("JetBox", <<>>, Ty("Box", <<Ty0("Jet")>>), <<Mth("extra", IntT)>>),
    Cls("Re", <<"U">>, Ty("Box", <<Iter(TVar("U"))>>), <<Mth("one", TVar("U"))>>),
    Cls("MyIter", <<"T">>, Iter(TVar("T")), <<Mth("Last", TVar("T"))>>),
    Cls("JetIter", <<>>, Ty("MyIter", <<Ty0("Jet")>>), <<>>),
    \* a plain subclass of a non-generic subclass of a generic class (no parameterised base of its own)
    Cls("CalibIter", <<>>, Ty0("JetIter"), <<Mth("ncal", IntT)>>),
    \* two type parameters, and a generic subclass that hands them to its base in the other order
    Cls("Two", <<"T", "U">>, NoAnn, <<Mth("first", TVar("T")), Mth("second", TVar("U"))>>),
    Cls("Swap", <<"T", "U">>, Ty("Two", <<TVar("U"), TVar("T")>>), <<Mth("mine", TVar("T"))>>),
    \* a user generic class NAMED like an export of typing (Container), and a two-parameter subclass that hands its SECOND
    \* parameter to it: the variable T means something else at each level
    Cls("Container", <<"T">>, NoAnn, <<Mth("first", TVar("T")), Mth("all", Iter(TVar("T")))>>),
    Cls("Assoc", <<"T", "U">>, Ty("Container", <<TVar("U")>>), <<Mth("key", TVar("T")), Mth("keys", Iter(TVar("T")))>>),
    DCls("Part", <<Mth("pt", FloatT), Mth("idx", IntT), Mth("parent", Ty0("Part")),
                   Mth("kids", Iter(Ty0("Part")))>>, <<Mth("good", BoolT)>>),
    Cls("Evt", <<>>, NoAnn, <<Mth("met", FloatT), Mth("nj", IntT), Mth("flag", BoolT), Mth("part", Ty0("Part")),
                              Mth("jets", Iter(Ty0("Jet"))), Mth("trks", Iter(Ty0("Trk"))),
                              Mth("box", Ty("Box", <<Ty0("Jet")>>)), Mth("jb", Ty0("JetBox")),
                              Mth("re", Ty("Re", <<Ty0("Trk")>>)), Mth("jetiter", Ty0("JetIter")),
                              Mth("myiter", Ty("MyIter", <<Ty0("Trk")>>)), Mth("noann", NoAnn),
                              Mth("calib", Ty0("CalibIter")), Mth("swap", Ty("Swap", <<Ty0("Jet"), Ty0("Trk")>>)),
                              Mth("assoc", Ty("Assoc", <<Ty0("Jet"), Ty0("Trk")>>)),
                              \* iterables spelled with the standard containers: typing.List[Trk], collections.abc.Sequence[Jet]
                              Mth("tlist", Ty("list", <<Ty0("Trk")>>)), Mth("jseq", Ty("Sequence", <<Ty0("Jet")>>))>>) >>
(* operators a registered collection class adds to every iterable: name -> "elem" | "int" *)
ExtraCollectionOps == <<Mth("Second", TVar("elem")), Mth("Size2", IntT)>>

ClassNames == {Universe[i].name : i \in 1..Len(Universe)}
ClassOf(nm) == Universe[CHOOSE i \in 1..Len(Universe) : Universe[i].name = nm]

(* substitute type variables *)
RECURSIVE TySubst(_, _, _)
TySubst(ty, vars, vals) ==
    IF ty.k = "tv" THEN (IF \E i \in 1..Len(vars) : vars[i] = ty.s
                         THEN vals[CHOOSE i \in 1..Len(vars) : vars[i] = ty.s] ELSE ty)
    ELSE [ty EXCEPT !.a = [i \in 1..Len(ty.a) |-> TySubst(ty.a[i], vars, vals)]]

(* the instantiated base type of an instantiated class type (noann if none) *)
BaseOf(ty) == IF ty.k # "ty" \/ ty.s \notin ClassNames THEN NoAnn
              ELSE LET c == ClassOf(ty.s) IN
                   IF c.base.k = "noann" THEN NoAnn
                   ELSE TySubst(c.base, c.params, IF Len(ty.a) = Len(c.params) THEN ty.a
                                                   ELSE [i \in 1..Len(c.params) |-> AnyT])

RECURSIVE ElemType(_)      \* element type if ty is (a subclass of) Iterable[...], else noann
(* (the standard one-parameter containers are iterables of their parameter: typing.List[X] = list[X], Sequence[X]) *)
ElemType(ty) == IF ty.k = "ty" /\ ty.s \in {"Iterable", "list", "Sequence"} /\ Len(ty.a) = 1 THEN ty.a[1]
                ELSE IF BaseOf(ty).k = "noann" THEN NoAnn ELSE ElemType(BaseOf(ty))
IsIterableT(ty) == ElemType(ty).k # "noann"
Unwrap(ty) == IF IsIterableT(ty) THEN ElemType(ty) ELSE AnyT

(* declared return type of method m on an instance of type ty, through inheritance; *)
(* noann-kind result: <<found, type>>                                              *)
RECURSIVE LookupMethod(_, _)
LookupMethod(ty, m) ==
    IF ty.k # "ty" \/ ty.s \notin ClassNames THEN <<FALSE, AnyT>>
    ELSE LET c == ClassOf(ty.s)
             args == IF Len(ty.a) = Len(c.params) THEN ty.a ELSE [i \in 1..Len(c.params) |-> AnyT]
         IN IF \E i \in 1..Len(c.methods) : c.methods[i].name = m
            THEN LET r == c.methods[CHOOSE i \in 1..Len(c.methods) : c.methods[i].name = m].ret IN
                 <<TRUE, IF r.k = "noann" THEN AnyT ELSE TySubst(r, c.params, args)>>
            ELSE IF c.base.k = "noann" THEN <<FALSE, AnyT>> ELSE LookupMethod(BaseOf(ty), m)

(* declared type of data-class field f of an instance of type ty *)
LookupField(ty, f) ==
    IF ty.k # "ty" \/ ty.s \notin ClassNames THEN <<FALSE, AnyT>>
    ELSE LET c == ClassOf(ty.s) IN
         IF \E i \in 1..Len(c.fields) : c.fields[i].name = f
         THEN <<TRUE, c.fields[CHOOSE i \in 1..Len(c.fields) : c.fields[i].name = f].ret>>
         ELSE <<FALSE, AnyT>>

Lookup(env, x) == IF x \in DOMAIN env THEN env[x] ELSE AnyT
NumJoin(a, b, op) == IF a = AnyT \/ b = AnyT THEN AnyT
                     ELSE IF a = FloatT \/ b = FloatT \/ op = "/" THEN FloatT ELSE IntT

RECURSIVE TypeOf(_, _)
TypeOfMethod(t, env) ==
    LET m == t.a[1].s
        rt == TypeOf(t.a[1].a[1], env)
        own == LookupMethod(rt, m)
        el == Unwrap(rt)
        args == CallArgs(t)
        lamBody(p) == TypeOf(args[1].a[1], (args[1].p[1] :> p) @@ env)
    IN IF own[1] THEN own[2]
       ELSE IF ~IsIterableT(rt) THEN AnyT
       ELSE CASE m = "First" -> el
              [] m = "Count" -> IntT
              [] m = "Second" -> el
              [] m = "Size2" -> IntT
              [] m = "Select" /\ Len(args) = 1 /\ args[1].k = "lam" -> Iter(lamBody(el))
              [] m = "Where" /\ Len(args) = 1 /\ args[1].k = "lam" -> Iter(el)
              [] m = "SelectMany" /\ Len(args) = 1 /\ args[1].k = "lam" -> Iter(Unwrap(lamBody(el)))
              [] OTHER -> AnyT

TypeOf(t, env) ==
    CASE t.k = "name"  -> Lookup(env, t.s)
      [] t.k = "int"   -> IntT
      [] t.k = "float" -> FloatT
      [] t.k = "bool"  -> BoolT
      [] t.k = "str"   -> StrT
      [] t.k = "call"  ->
           IF t.a[1].k = "attr" THEN TypeOfMethod(t, env)
           ELSE IF IsCallOf(t, "len") THEN IntT
           ELSE IF IsCallOf(t, "abs") THEN FloatT
           ELSE AnyT
      [] t.k \in {"cmp", "boolop"} -> BoolT
      [] t.k = "unop"  -> IF t.s = "not" THEN BoolT ELSE TypeOf(t.a[1], env)
      [] t.k = "binop" -> NumJoin(TypeOf(t.a[1], env), TypeOf(t.a[2], env), t.s)
      [] t.k = "ifexp" -> LET a == TypeOf(t.a[2], env)  b == TypeOf(t.a[3], env) IN
                          IF a = b THEN a ELSE FloatT
      [] t.k = "dict"  -> RecT([i \in 1..(Len(t.a) \div 2) |-> t.a[2 * i - 1].s],
                               [i \in 1..(Len(t.a) \div 2) |-> TypeOf(t.a[2 * i], env)])
      [] t.k = "sub"   ->
           IF t.a[1].k = "tuple" /\ t.a[2].k = "int" THEN TypeOf(t.a[1].a[t.a[2].n + 1], env)
           ELSE LET vt == TypeOf(t.a[1], env) IN
                IF vt.k = "rec" /\ t.a[2].k = "str" /\ \E i \in 1..Len(vt.p) : vt.p[i] = t.a[2].s
                THEN vt.a[CHOOSE i \in 1..Len(vt.p) : vt.p[i] = t.a[2].s]
                ELSE Unwrap(vt)
      [] t.k = "attr"  ->
           LET vt == TypeOf(t.a[1], env) IN
           IF vt.k = "rec" /\ \E i \in 1..Len(vt.p) : vt.p[i] = t.s
           THEN vt.a[CHOOSE i \in 1..Len(vt.p) : vt.p[i] = t.s]
           ELSE LookupField(vt, t.s)[2]
      [] OTHER -> AnyT

(* item type of the stream an operator produces; "refuse" for a non-boolean Where filter *)
StreamResult(op, itemT, lam) ==
    LET bt == TypeOf(lam.a[1], (lam.p[1] :> itemT)) IN
    CASE op = "Select" -> <<"ok", bt>>
      [] op = "SelectMany" -> <<"ok", Unwrap(bt)>>
      [] op = "Where" -> IF bt = BoolT THEN <<"ok", itemT>> ELSE <<"ValueError", itemT>>
      [] OTHER -> <<"ok", AnyT>>

---------------------------------------------------------------------------
(* Part 4 (C09): callbacks.  A case places callbacks (class / method / both *)
(* / function processor / parameterised property) on the thing called at    *)
(* one or two call sites (site ids 101, 102 = the call's first argument),   *)
(* in a placement context; rw says the callbacks rewrite the call site      *)
(* (each appends "_rw" to the called name).                                 *)
CbKinds(pl) == CASE pl = "class" -> <<"class">>
                 [] pl = "method" -> <<"method">>
                 [] pl = "both" -> <<"class", "method">>
                 [] pl = "func" -> <<"func">>
                 [] OTHER -> <<"param">>
(* alias: the two sites are ONE shared call node occurring twice in the lambda body (what inlining a helper *)
(* that uses its parameter twice produces): two call sites with the same id                               *)
Sites(cs) == IF cs.two THEN (IF cs.alias THEN <<101, 101>> ELSE <<101, 102>>) ELSE <<101>>
SitesWith(cs, site) == Cardinality({i \in 1..Len(Sites(cs)) : Sites(cs)[i] = site})
(* the planned firings: per site, its callbacks in order *)
CallbackPlan(cs) == [i \in 1..Len(Sites(cs)) |-> [site |-> Sites(cs)[i], cbs |-> CbKinds(cs.pl)]]
PlannedPairs(cs) == {<<CbKinds(cs.pl)[j], Sites(cs)[i]>> : i \in 1..Len(Sites(cs)), j \in 1..Len(CbKinds(cs.pl))}
RECURSIVE Suffixed(_, _)
Suffixed(nm, n) == IF n = 0 THEN nm ELSE Suffixed(nm, n - 1) \o "_rw"
BaseName(pl) == CASE pl = "func" -> "cbfn" [] pl = "param" -> "prop" [] OTHER -> "m"
(* context 8 chains two typed calls, e.sub(101).m(102): the first site calls 'sub' *)
ChainCtx == 8
BaseNameAt(cs, i) == IF cs.ctx = ChainCtx /\ i = 1 THEN "sub" ELSE BaseName(cs.pl)
EmittedNameAt(cs, i) == IF cs.rw THEN Suffixed(BaseNameAt(cs, i), Len(CbKinds(cs.pl))) ELSE BaseNameAt(cs, i)

=============================================================================
