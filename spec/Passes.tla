------------------------------- MODULE Passes -------------------------------
(***************************************************************************)
(* Specifications of the pure AST passes shipped with func_adl.            *)
(***************************************************************************)
EXTENDS Sem

(* ---------------- simplifier: auxiliary predicates ---------------- *)
(* FuncADLIndexError is permitted only for a constant index beyond the end  *)
(* of a tuple or list literal.  Over-approximated (never a false alarm):    *)
(* some subscript has a constant int index n and some tuple/list literal    *)
(* of the input has at most n elements.                                     *)
IndexErrorPossible(t) ==
    LET subs == SubTerms(t) IN
    \E s \in subs : /\ s.k = "sub" /\ s.a[2].k = "int"
                    /\ \E lit \in subs : lit.k \in {"tuple", "list"} /\ Len(lit.a) <= s.a[2].n

(* C14: packaging constructs in the output are at most those of the final   *)
(* stage's result expression, and no constant projection of a literal or    *)
(* of a packaged value survives.  Filled in by the C14 check (ShapeOK).     *)
RECURSIVE ResultExpr(_)
ResultExpr(t) ==     \* the expression that produces the elements of the result
    IF IsCallOf(t, "Select") /\ t.n = 2 /\ t.a[3].k = "lam" THEN t.a[3].a[1]
    ELSE IF IsCallOf(t, "Where") /\ t.n = 2 THEN ResultExpr(t.a[2])
    ELSE IF IsCallOf(t, "SelectMany") /\ t.n = 2 /\ t.a[3].k = "lam" THEN ResultExpr(t.a[3].a[1])
    ELSE t

Packaging == {"tuple", "list", "dict"}
ConstProj(s) == \/ (s.k = "sub" /\ s.a[2].k \in {"int", "str"})
ShapeOK(in, out) ==
    /\ CountKinds(out, Packaging) <= CountKinds(ResultExpr(in), Packaging)
    /\ \A s \in SubTerms(out) : ~(ConstProj(s) /\ s.a[1].k \in Packaging)

=============================================================================
