------------------------------- MODULE Passes -------------------------------
(***************************************************************************)
(* Specifications of the pure AST passes shipped with func_adl.            *)
(***************************************************************************)
EXTENDS Sem

(* ---------------- simplifier: auxiliary predicates ---------------- *)
(* FuncADLIndexError is permitted only for a constant index beyond the end  *)
(* of a tuple or list literal.  Over-approximated (never a false alarm):    *)
(* some subscript has a constant int index n and some tuple/list literal    *)
(* of the input has at most n elements.                                     *)
IndexErrorPossible(t) ==
    LET subs == SubTerms(t) IN
    \E s \in subs : /\ s.k = "sub" /\ s.a[2].k = "int"
                    /\ \E lit \in subs : lit.k \in {"tuple", "list"} /\ Len(lit.a) <= s.a[2].n

(* C14: packaging constructs in the output are at most those of the final   *)
(* stage's result expression, and no constant projection of a literal or    *)
(* of a packaged value survives.  Filled in by the C14 check (ShapeOK).     *)
RECURSIVE ResultExpr(_)
ResultExpr(t) ==     \* the expression that produces the elements of the result
    IF IsCallOf(t, "Select") /\ t.n = 2 /\ t.a[3].k = "lam" THEN t.a[3].a[1]
    ELSE IF IsCallOf(t, "Where") /\ t.n = 2 THEN ResultExpr(t.a[2])
    ELSE IF IsCallOf(t, "SelectMany") /\ t.n = 2 /\ t.a[3].k = "lam" THEN ResultExpr(t.a[3].a[1])
    ELSE t

Packaging == {"tuple", "list", "dict"}
(* C14's antecedent: packaged values are only ever taken apart again.  A package that is  *)
(* consumed whole by an aggregating operator (Count(Select(seq, lambda x: (a, b)))) is    *)
(* outside the property; it legitimately survives.                                        *)
RECURSIVE OnlyTakenApart(_)
OnlyTakenApart(t) ==
    /\ (t.k = "call" /\ ((t.a[1].k = "name" /\ t.a[1].s \in {"Count", "len", "Sum", "Max", "Min"})
                        \/ (t.a[1].k = "attr" /\ t.a[1].s \in {"Count", "Sum", "Max", "Min"})))
          => CountKinds(t, Packaging) = 0
    /\ \A i \in 1..Len(t.a) : OnlyTakenApart(t.a[i])
ConstProj(s) == \/ (s.k = "sub" /\ s.a[2].k \in {"int", "str"})
(* a projection of a stage variable that no longer exists (a name free in the output but not in the *)
(* input) is a projection of the intermediate package that was not compiled away                    *)
LeftoverProj(in, out) ==
    LET lost == FVars(out) \ FVars(in) IN
    \E s \in SubTerms(out) : (ConstProj(s) \/ s.k = "attr") /\ s.a[1].k = "name" /\ s.a[1].s \in lost
(* The package skeleton of the VALUE an expression produces: literals keep their structure, a constant projection *)
(* of a literal / of the first element of a sequence whose elements are built by a literal selects the component,  *)
(* sequence operators stand for their elements.  What is left counts the packaging that is "part of the final      *)
(* result"; a package that a projection throws away is not.  (Names never denote packages in the generated space; *)
(* unknown calls keep everything inside them: an upper bound.)                                                    *)
PKeyEq(k1, k2) == k1 = k2 \/ (k1.k \in {"int", "bool"} /\ k2.k \in {"int", "bool"} /\ k1.n = k2.n)     \* True == 1
RECURSIVE ResTerm(_)
ResTerm(e) ==
    CASE e.k \in {"tuple", "list"} -> [e EXCEPT !.a = [i \in 1..Len(e.a) |-> ResTerm(e.a[i])]]
      [] e.k = "dict" -> [e EXCEPT !.a = [i \in 1..Len(e.a) |-> IF i % 2 = 0 THEN ResTerm(e.a[i]) ELSE e.a[i]]]
      [] e.k = "sub" ->
           LET v == ResTerm(e.a[1])  ix == e.a[2] IN
           IF v.k \in {"tuple", "list"} /\ ix.k = "int" /\ PyIndex(Len(v.a), ix.n) # 0 THEN v.a[PyIndex(Len(v.a), ix.n)]
           ELSE IF v.k = "dict" /\ ix.k \in {"str", "int"} /\ \E i \in 1..(Len(v.a) \div 2) : PKeyEq(v.a[2 * i - 1], ix)
                THEN v.a[2 * (CHOOSE i \in 1..(Len(v.a) \div 2) : PKeyEq(v.a[2 * i - 1], ix) /\
                                  \A j \in (i + 1)..(Len(v.a) \div 2) : ~PKeyEq(v.a[2 * j - 1], ix))]
           ELSE [e EXCEPT !.a = <<v, ix>>]
      [] e.k = "attr" ->
           LET v == ResTerm(e.a[1]) IN
           IF v.k = "dict" /\ \E i \in 1..(Len(v.a) \div 2) : v.a[2 * i - 1] = StrC(e.s)
           THEN v.a[2 * (CHOOSE i \in 1..(Len(v.a) \div 2) : v.a[2 * i - 1] = StrC(e.s) /\
                             \A j \in (i + 1)..(Len(v.a) \div 2) : v.a[2 * j - 1] # StrC(e.s))]
           ELSE [e EXCEPT !.a = <<v>>]
      [] e.k = "call" /\ e.a[1].k = "name" /\ e.a[1].s \in {"Select", "Where", "SelectMany"} /\ e.n = 2 ->
           ResTerm(ResultExpr(e))
      [] e.k = "call" /\ e.a[1].k = "name" /\ e.a[1].s = "First" /\ e.n = 1 -> ResTerm(ResultExpr(e.a[2]))
      [] e.k = "ifexp" -> [e EXCEPT !.a = <<e.a[1], ResTerm(e.a[2]), ResTerm(e.a[3])>>]
      [] OTHER -> e
ShapeOK(in, out) ==
    ~OnlyTakenApart(in) \/
    /\ CountKinds(out, Packaging) <= CountKinds(ResTerm(ResultExpr(in)), Packaging)
    /\ \A s \in SubTerms(out) : ~(ConstProj(s) /\ s.a[1].k \in Packaging)
    /\ ~LeftoverProj(in, out)

---------------------------------------------------------------------------
(* change_extension_functions_to_calls (C17): seq.Op(args) -> Op(seq, args) *)
(* for the known operator names, bottom-up, everywhere; nothing else        *)
(* changes (keyword arguments of the call are kept).                        *)
ExtensionNames == {"Select", "SelectMany", "Where", "First", "ResultTTree", "ResultAwkwardArray",
                   "ResultPandasDF", "Min", "Max", "Sum", "Aggregate", "Count"}

RECURSIVE ToFunctionForm(_)
ToFunctionForm(t) ==
    LET u == [t EXCEPT !.a = [i \in 1..Len(t.a) |-> ToFunctionForm(t.a[i])]] IN
    IF u.k = "call" /\ u.a[1].k = "attr" /\ u.a[1].s \in ExtensionNames
    THEN T("call", "", u.n + 1, u.p, <<Name(u.a[1].s), u.a[1].a[1]>> \o Tail(u.a))
    ELSE u

RECURSIVE HasMethodFormOp(_)
HasMethodFormOp(t) ==
    \/ (t.k = "call" /\ t.a[1].k = "attr" /\ t.a[1].s \in ExtensionNames)
    \/ \E i \in 1..Len(t.a) : HasMethodFormOp(t.a[i])

---------------------------------------------------------------------------
(* aggregate_node_transformer (C19)                                         *)
Shortcuts == {"len", "Count", "Sum", "Max", "Min"}
IsShortcut(t) == t.k = "call" /\ t.a[1].k = "name" /\ t.a[1].s \in Shortcuts
                   /\ t.n = 1 /\ t.p = <<>>

(* Structural clause: out is in with every shortcut call replaced by some   *)
(* three-argument Aggregate call on the (lowered) sequence; all else equal. *)
RECURSIVE AggMatch(_, _)
AggMatch(in, out) ==
    IF IsShortcut(in) THEN
        /\ IsCallOf(out, "Aggregate") /\ out.n = 3 /\ out.p = <<>>
        /\ AggMatch(in.a[2], out.a[2])
    ELSE /\ in.k = out.k /\ in.s = out.s /\ in.n = out.n /\ in.p = out.p
         /\ Len(in.a) = Len(out.a)
         /\ \A i \in 1..Len(in.a) : AggMatch(in.a[i], out.a[i])

(* all integer sequences of length <= 3 over {-2, 0, 3} *)
TestInts == {-2, 0, 3}
TestSeqs == {<<>>} \cup {<<a>> : a \in TestInts} \cup {<<a, b>> : a \in TestInts, b \in TestInts}
              \cup {<<a, b, c>> : a \in TestInts, b \in TestInts, c \in TestInts}
SeqVal(sq) == VList([i \in 1..Len(sq) |-> VInt(sq[i])])
Expected(op, sq) ==
    LET v == SeqVal(sq) IN
    CASE op \in {"len", "Count"} -> VInt(Len(sq))
      [] op = "Sum" -> VInt(SumInts(v.e, 1))
      [] op = "Max" -> VInt(MaxInts(v.e))
      [] OTHER -> VInt(MinInts(v.e))

(* every fold that replaced a shortcut computes the right thing on every test sequence *)
RECURSIVE FoldsRight(_, _)
FoldsRight(in, out) ==
    IF IsShortcut(in) THEN
        /\ IsCallOf(out, "Aggregate") /\ out.n = 3
        /\ \A sq \in TestSeqs :
              SeqOp("Aggregate", SeqVal(sq), <<out.a[3], out.a[4]>>, <<>>, <<>>, <<>>)
                 = Expected(in.a[1].s, sq)
        /\ FoldsRight(in.a[2], out.a[2])
    ELSE Len(in.a) = Len(out.a) /\ \A i \in 1..Len(in.a) : FoldsRight(in.a[i], out.a[i])

RECURSIVE HasShortcut(_)
HasShortcut(t) == IsShortcut(t) \/ \E i \in 1..Len(t.a) : HasShortcut(t.a[i])

---------------------------------------------------------------------------
(* extract_metadata / remove_empty_metadata (C15)                           *)
IsMD(t) == IsCallOf(t, "MetaData") /\ t.n = 2 /\ t.p = <<>>

RECURSIVE StripMD(_)
StripMD(t) == IF IsMD(t) THEN StripMD(t.a[2])
              ELSE [t EXCEPT !.a = [i \in 1..Len(t.a) |-> StripMD(t.a[i])]]

(* paths of all wrappers; the dictionary argument itself is not searched *)
RECURSIVE MDPaths(_, _)
MDPaths(t, here) ==
    IF IsMD(t) THEN {here} \cup MDPaths(t.a[2], Append(here, 2))
    ELSE UNION {MDPaths(t.a[i], Append(here, i)) : i \in 1..Len(t.a)}

IsPrefixOf(p, q) == Len(p) <= Len(q) /\ SubSeq(q, 1, Len(p)) = p
(* w must come after w2 when w lies inside the source argument of w2 *)
MustPrecede(w2, w) == w2 # w /\ IsPrefixOf(Append(w2, 2), w)

RECURSIVE LinExt(_, _, _)
LinExt(t, obs, remaining) ==
    IF obs = <<>> THEN remaining = {}
    ELSE \E w \in remaining :
            /\ At(t, w).a[3] = Head(obs)
            /\ \A w2 \in remaining : ~MustPrecede(w2, w)
            /\ LinExt(t, Tail(obs), remaining \ {w})

IsEmptyDict(t) == t.k = "dict" /\ Len(t.a) = 0
RECURSIVE RemoveEmptyMD(_)
RemoveEmptyMD(t) ==
    LET u == [t EXCEPT !.a = [i \in 1..Len(t.a) |-> RemoveEmptyMD(t.a[i])]] IN
    IF IsMD(u) /\ IsEmptyDict(u.a[3]) THEN u.a[2] ELSE u

---------------------------------------------------------------------------
(* resolve_syntatic_sugar (C06).  Constructor calls: DESIGN.md A.5.          *)
(* sig = [n fields a, b, c.., the first r required]; shape = [npos, kws];    *)
(* rendering: i-th positional value = 10 + i, keyword value for field j =    *)
(* 30 + j (unknown keyword zz = 39), default of field j = 20 + j.            *)
CFNames == <<"a", "b", "c", "d">>
CIndex(nm) == IF \E i \in 1..Len(CFNames) : CFNames[i] = nm
              THEN CHOOSE i \in 1..Len(CFNames) : CFNames[i] = nm ELSE 0
CInSeq(x, sq) == \E i \in 1..Len(sq) : sq[i] = x
CtorMalformed(sig, sh) ==
    \/ sh.npos > sig.n                                               \* more arguments than fields
    \/ \E i \in 1..Len(sh.kws) : CIndex(sh.kws[i]) = 0 \/ CIndex(sh.kws[i]) > sig.n    \* unknown keyword
    \/ \E i \in 1..Len(sh.kws) : CIndex(sh.kws[i]) <= sh.npos       \* field bound twice
    \/ sh.npos + Len(sh.kws) > sig.n
CtorOmitsRequired(sig, sh) ==
    \E j \in (sh.npos + 1)..sig.r : ~CInSeq(CFNames[j], sh.kws)
(* the value the dictionary must hold under field j, or absent if the field may be missing *)
DictLookup(d, key) ==
    LET n == Len(d.a) \div 2
        hits == {i \in 1..n : d.a[2 * i - 1] = StrC(key)}
    IN IF Cardinality(hits) = 1 THEN d.a[2 * (CHOOSE i \in hits : TRUE)] ELSE Absent
(* zkw: the class has an extra keyword-only field z = 7 declared before the others; it may (and, since it has a *)
(* constant default, does) appear under its own name with its default                                           *)
CtorDictOK(sig, sh, d, zkw) ==
    /\ d.k = "dict"
    /\ \A i \in 1..(Len(d.a) \div 2) :
          /\ d.a[2 * i - 1].k = "str"
          /\ \/ CIndex(d.a[2 * i - 1].s) \in 1..sig.n
             \/ (zkw /\ d.a[2 * i - 1].s = "z" /\ d.a[2 * i] = IntC(7))
          /\ \A j \in 1..(Len(d.a) \div 2) : i # j => d.a[2 * i - 1] # d.a[2 * j - 1]
    /\ \A j \in 1..sig.n :
          IF j <= sh.npos THEN DictLookup(d, CFNames[j]) = IntC(10 + j)
          ELSE IF CInSeq(CFNames[j], sh.kws) THEN DictLookup(d, CFNames[j]) = IntC(30 + j)
          \* a default that cannot be written as a literal of a transportable type: left out, or None itself
          ELSE IF j = sig.r + 1 /\ sig.dk = "none1" THEN DictLookup(d, CFNames[j]) \in {Absent, NoneC}
          ELSE IF j > sig.r THEN DictLookup(d, CFNames[j]) = IntC(20 + j)    \* bound to its declared default
          ELSE TRUE

---------------------------------------------------------------------------
(* Comprehension lowering as a specification (used for C04's expected lambda; C06 judges *)
(* the real pass relationally):  [elt for x in it if c1 if c2]                           *)
(*    ->  it.Where(lambda x: c1).Where(lambda x: c2).Select(lambda x: elt)               *)
RECURSIVE WhereChain(_, _, _, _)
WhereChain(src, x, ifs, i) ==
    IF i > Len(ifs) THEN src ELSE WhereChain(Meth(src, "Where", <<Lam1(x, ifs[i])>>), x, ifs, i + 1)
RECURSIVE LowerComp(_)
LowerComp(t) ==
    LET u == [t EXCEPT !.a = [i \in 1..Len(t.a) |-> LowerComp(t.a[i])]] IN
    IF u.k = "comp"
    THEN Meth(WhereChain(u.a[2], u.p[1], SubSeq(u.a, 3, Len(u.a)), 1), "Select", <<Lam1(u.p[1], u.a[1])>>)
    ELSE u

=============================================================================
