------------------------------ MODULE CallStack ------------------------------
(***************************************************************************)
(* func_adl.ast.call_stack: the name-definition stack the simplifier uses  *)
(* while it moves lambda bodies around (argument_stack + the stack_frame   *)
(* context manager).  One action per public method:                        *)
(*   Push   = push_stack_frame / stack_frame.__enter__                     *)
(*   Pop    = pop_stack_frame  / stack_frame.__exit__ (also on exceptions) *)
(*   Define = define_name(n, v) in the innermost frame                     *)
(*   Lookup = lookup_name(n, default) (a pure observation, recorded)       *)
(* Design properties: a lookup sees the innermost definition; popping a    *)
(* frame restores exactly the bindings visible when it was pushed          *)
(* (FrameDiscipline), whatever was defined in between.                     *)
(***************************************************************************)
EXTENDS Naturals, Sequences, FiniteSets, TLC, Json, IOUtils

CONSTANTS MaxDepth, MaxSteps
Names == {"a", "b"}
Vals == {1, 2}
Undef == 0
Default == 9

VARIABLES frames,   \* Seq of [Names -> Vals \cup {Undef}]
          saved,    \* ghost: the visible bindings at each Push (one entry per frame above the base)
          hist      \* the behaviour so far: Seq of [act, n, v]
vars == <<frames, saved, hist>>

Empty == [n \in Names |-> Undef]
RECURSIVE Find(_, _, _)
Find(fs, i, n) == IF i = 0 THEN Default ELSE IF fs[i][n] # Undef THEN fs[i][n] ELSE Find(fs, i - 1, n)
Visible(fs) == [n \in Names |-> Find(fs, Len(fs), n)]

Act(a, n, v) == [act |-> a, n |-> n, v |-> v]
Room == Len(hist) < MaxSteps

Init == frames = <<Empty>> /\ saved = <<>> /\ hist = <<>>
Push == /\ Room /\ Len(frames) < MaxDepth
        /\ frames' = Append(frames, Empty)
        /\ saved' = Append(saved, Visible(frames))
        /\ hist' = Append(hist, Act("push", "", 0))
Pop == /\ Room /\ Len(frames) > 1
       /\ frames' = SubSeq(frames, 1, Len(frames) - 1)
       /\ saved' = SubSeq(saved, 1, Len(saved) - 1)
       /\ hist' = Append(hist, Act("pop", "", 0))
(* the body of a `with stack_frame(...)` block raises: the frame is popped all the same *)
PopOnRaise == /\ Room /\ Len(frames) > 1
              /\ frames' = SubSeq(frames, 1, Len(frames) - 1)
              /\ saved' = SubSeq(saved, 1, Len(saved) - 1)
              /\ hist' = Append(hist, Act("raise", "", 0))
Define(n, v) == /\ Room
                /\ frames' = [frames EXCEPT ![Len(frames)][n] = v]
                /\ UNCHANGED saved
                /\ hist' = Append(hist, Act("define", n, v))
Next == Push \/ Pop \/ PopOnRaise \/ \E n \in Names, v \in Vals : Define(n, v)
Spec == Init /\ [][Next]_vars

TypeOK == /\ Len(frames) >= 1 /\ Len(frames) <= MaxDepth /\ Len(saved) = Len(frames) - 1
InnermostWins == \A n \in Names : frames[Len(frames)][n] # Undef => Visible(frames)[n] = frames[Len(frames)][n]
(* popping restores what was visible at the matching push *)
FrameDiscipline == [][Len(frames') < Len(frames) => Visible(frames') = saved[Len(saved)]]_vars
(* definitions never leak downwards: the frames below the innermost one are untouched by Define *)
NoLeak == [][Len(frames') = Len(frames) => SubSeq(frames', 1, Len(frames) - 1) = SubSeq(frames, 1, Len(frames) - 1)]_vars

(* generator: every behaviour prefix is a history to replay *)
AppendOpt == [format |-> "TXT", charset |-> "UTF-8", openOptions |-> <<"WRITE", "CREATE", "APPEND">>]
Export == Len(hist) = 0 \/ Serialize(ToJson(hist) \o "\n", IOEnv.OUT_FILE, AppendOpt).exitValue = 0
NoHistView == <<frames, saved, Len(hist)>>
=============================================================================
