------------------------------ MODULE GenLayout ------------------------------
(* C03 generator: layouts as behaviours (add one call at a time, then fix the   *)
(* statement-level decorations).                                                *)
EXTENDS Source, Json, IOUtils
CONSTANTS MaxCalls,
          Mode      \* "wide" / "rand": all decorations (rand: also split chains / short receivers); "line": only the calls vary (operator, parameter, none/dot break),
                    \*   exhaustively -- chains that share physical lines with interleaved operator names
VARIABLES lay, done
vars == <<lay, done>>
Init == /\ lay = [calls |-> <<>>, wrap |-> "fn", extra |-> "none", pre |-> FALSE, kind |-> "lambda",
                  split |-> 0, recv |-> "ds"]
        /\ done = FALSE
AddCall == /\ ~done /\ Len(lay.calls) < MaxCalls
           \* Mode "cline": like "line", plus a break after the parenthesis with / without a comment-only line before the lambda
           /\ \E op \in Ops, p \in Params,
                 b \in (CASE Mode = "line" -> {"none", "dot"} [] Mode = "cline" -> {"none", "dot", "paren"} [] OTHER -> Breaks),
                 d \in (CASE Mode = "line" -> {"none"} [] Mode = "cline" -> {"none", "cline"} [] OTHER -> Decos) :
                 lay' = [lay EXCEPT !.calls = Append(lay.calls, CallRec(op, p, b, d))]
           /\ UNCHANGED done
Finish == /\ ~done /\ Len(lay.calls) >= 1
          /\ \E w \in (IF Mode \in {"line", "cline"} THEN {"fn", "cond"} ELSE Wraps),
                ex \in (IF Mode \in {"line", "cline"} THEN {"none"} ELSE Extras),
                pr \in (IF Mode \in {"line", "cline"} THEN {FALSE} ELSE BOOLEAN),
                kd \in (IF Mode \in {"line", "cline"} THEN {"lambda"} ELSE {"lambda", "def", "var", "wrapped"}),
                \* split = k > 0: calls 1..k and k+1.. are two separate chains in one statement, second(a.Op(..), b.Op(..));
                \* recv = "short": the receivers are one-letter variables (a, b)
                sp \in (IF Len(lay.calls) >= 2 /\ Mode \notin {"wide", "cline"} THEN {0, 1} ELSE {0}),
                rc \in (IF Mode \notin {"wide", "cline"} THEN {"ds", "short"} ELSE {"ds"}) :     \* ("wide" = exhaustive over the decorations)
                /\ (sp > 0 => ex = "none")
                /\ lay' = [lay EXCEPT !.wrap = w, !.extra = ex, !.pre = pr, !.kind = kd, !.split = sp, !.recv = rc]
          /\ done' = TRUE
Next == AddCall \/ Finish
Spec == Init /\ [][Next]_vars
AppendOpt == [format |-> "TXT", charset |-> "UTF-8",
              openOptions |-> <<"WRITE", "CREATE", "APPEND">>]
Export == ~done \/ Serialize(ToJson(lay) \o "\n", IOEnv.OUT_FILE, AppendOpt).exitValue = 0
=============================================================================
