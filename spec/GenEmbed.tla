------------------------------ MODULE GenEmbed ------------------------------
(* C13 generator: values are built step by step (append a character, wrap in a *)
(* list / tuple / dict); every reachable value is a case.                      *)
EXTENDS Embed, Json, IOUtils
CONSTANTS MaxLen, MaxDepth
VARIABLE v

RECURSIVE Depth(_)
Depth(x) == IF x.items = <<>> THEN 0
            ELSE 1 + (CHOOSE m \in {Depth(x.items[i]) : i \in 1..Len(x.items)} :
                         \A i \in 1..Len(x.items) : Depth(x.items[i]) <= m)
Scalars == {VStr(<<>>), VInt(0), VInt(1), VInt(5), VInt(-7), VFloat("1.0"), VFloat("0.0"), VFloat("-0.0"), VBig("9223372036854775808123"), VBig("-170141183460469231731687303715884105728"),
            VFloat("1.5"), VFloat("-2.25"), VFloat("1e+30"), VFloat("0.1"), VBool(TRUE), VBool(FALSE), VNone,
            VFloat("inf"), VFloat("-inf"), VFloat("nan"),       \* the non-finite floats (their text is not a literal)
            VBytes(<<>>), VBytes(<<"97", "39", "92", "10", "200">>)}
Init == v \in Scalars
Grow == /\ v.vt = "str" /\ Len(v.cs) < MaxLen
        /\ \E c \in Alphabet : v' = VStr(Append(v.cs, c))
Wrap == /\ Depth(v) < MaxDepth
        /\ v' \in {VList(<<v>>), VList(<<VInt(1), v>>), VTuple(<<v, v>>), VDict(<<VStr(<<"k">>), v>>), VList(<<>>),
                   VDict(<<>>)}
               \cup (IF v.vt \in {"str", "int"} THEN {VDict(<<v, VInt(1)>>)} ELSE {})
Next == Grow \/ Wrap
Spec == Init /\ [][Next]_v
AppendOpt == [format |-> "TXT", charset |-> "UTF-8",
              openOptions |-> <<"WRITE", "CREATE", "APPEND">>]
Export == Serialize(ToJson(v) \o "\n", IOEnv.OUT_FILE, AppendOpt).exitValue = 0
=============================================================================
