---------------------------- MODULE GenCallbacks ----------------------------
(* C09 generator: callback placement x call-site context x one/two sites x   *)
(* rewriting or not.  One behaviour = one case.                              *)
EXTENDS TypeFollow, Json, IOUtils
CONSTANTS Contexts
Cases == {[pl |-> pl, ctx |-> cx, two |-> tw, rw |-> rw] :
             pl \in {"class", "method", "both", "func", "param"}, cx \in Contexts,
             tw \in BOOLEAN, rw \in BOOLEAN}
VARIABLE cs
Init == cs \in Cases
Next == UNCHANGED cs
Spec == Init /\ [][Next]_cs
AppendOpt == [format |-> "TXT", charset |-> "UTF-8",
              openOptions |-> <<"WRITE", "CREATE", "APPEND">>]
Export == Serialize(ToJson(cs) \o "\n", IOEnv.OUT_FILE, AppendOpt).exitValue = 0
=============================================================================
