---------------------------- MODULE GenCallbacks ----------------------------
(* C09 generator: callback placement x call-site context x one/two sites x   *)
(* rewriting or not.  One behaviour = one case.                              *)
EXTENDS TypeFollow, Json, IOUtils
CONSTANTS Contexts
(* inh: the receiver's class INHERITS the called method / property from a base class; the class-level callback is *)
(* registered on the derived class (the class the query uses), the method-level one where the method is defined  *)
Cases == {cs2 \in {[pl |-> pl, ctx |-> cx, two |-> tw, rw |-> rw, alias |-> al, inh |-> ih] :
                       pl \in {"class", "method", "both", "func", "param"}, cx \in Contexts,
                       tw \in BOOLEAN, rw \in BOOLEAN, al \in BOOLEAN, ih \in BOOLEAN} :
             (* the chained context has two sites by construction and needs methods *)
             /\ cs2.ctx = ChainCtx => (cs2.two /\ cs2.pl \in {"class", "method", "both"} /\ ~cs2.alias)
             /\ cs2.alias => cs2.two
             /\ cs2.inh => (cs2.pl # "func" /\ cs2.ctx \notin {ChainCtx, 9})}
VARIABLE cs
Init == cs \in Cases
Next == UNCHANGED cs
Spec == Init /\ [][Next]_cs
AppendOpt == [format |-> "TXT", charset |-> "UTF-8",
              openOptions |-> <<"WRITE", "CREATE", "APPEND">>]
Export == Serialize(ToJson(cs) \o "\n", IOEnv.OUT_FILE, AppendOpt).exitValue = 0
=============================================================================
