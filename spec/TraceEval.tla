----------------------------- MODULE TraceEval -----------------------------
(* Evaluates every program of IN_FILE on every model dataset and writes the *)
(* values (one ndjson line per program) to OUT_FILE; also exports the model *)
(* datasets themselves (DATA_FILE) so that the CPython reference runtime    *)
(* works on the very same data.  Used to cross-validate Sem against CPython. *)
EXTENDS Sem, Json, IOUtils

Progs == ndJsonDeserialize(IOEnv.IN_FILE)
AppendOpt == [format |-> "TXT", charset |-> "UTF-8",
              openOptions |-> <<"WRITE", "CREATE", "APPEND">>]
VARIABLE i
Init == /\ i = 1
        /\ ndJsonSerialize(IOEnv.DATA_FILE, [d \in 1..NData |-> VList(Datasets[d])])
Next == /\ i <= Len(Progs)
        /\ i' = i + 1
        /\ Serialize(ToJson([id |-> Progs[i].id,
                             vals |-> [d \in 1..NData |-> EvalOn(Progs[i].t, d)]]) \o "\n",
                     IOEnv.OUT_FILE, AppendOpt).exitValue = 0
Spec == Init /\ [][Next]_i
=============================================================================
