----------------------------- MODULE TracePass -----------------------------
(***************************************************************************)
(* Trace validation of recorded (input, output | exception) pairs of the   *)
(* pure AST passes against their *relational* specification.               *)
(*                                                                         *)
(* One ndjson line per recorded call:                                      *)
(*   [id, pass, in, out, exc, flags]                                       *)
(* One verdict line per record: [id, v, clause, d, nontrivial, changed]    *)
(*   v = ACCEPT | REJECT | UNMODELLED ; clause names the failing conjunct  *)
(* The clauses are the listed properties' own words; nothing compares with *)
(* a reference output unless the property itself is an exact rewrite.      *)
(***************************************************************************)
EXTENDS Passes, Json, IOUtils

Trace == ndJsonDeserialize(IOEnv.IN_FILE)
AppendOpt == [format |-> "TXT", charset |-> "UTF-8",
              openOptions |-> <<"WRITE", "CREATE", "APPEND">>]

Verdict(id, v, clause, d, nontriv, changed, info) ==
    [id |-> id, v |-> v, clause |-> clause, d |-> d, nontrivial |-> nontriv,
     changed |-> changed, info |-> info]

(* datasets on which the original is a usable reference *)
RefVals(t) == [d \in 1..NData |-> EvalOn(t, d)]
NonEmpty(v) == ~Bad(v) /\ (v.t \notin {"list", "tup"} \/ Len(v.e) > 0)

(* ---- simplify_chained_calls : C02 (Scoped, Preserve), C18 (Total, WellFormed, *)
(*      Compiles, IndexErrorDue), C14 (Shape, only when flags.shape)             *)
JudgeSimplify(r) ==
    LET in == r.in IN
    IF r.exc # "" THEN
        IF r.exc = "FuncADLIndexError" THEN
            IF IndexErrorPossible(in) THEN Verdict(r.id, "ACCEPT", "IndexErrorDue", 0, FALSE, FALSE, "")
            ELSE Verdict(r.id, "REJECT", "IndexErrorNotDue", 0, TRUE, FALSE, r.exc)
        ELSE Verdict(r.id, "REJECT", "Total", 0, TRUE, FALSE, r.exc)
    ELSE
    LET out == r.out
        refs == RefVals(in)
        usable == {d \in 1..NData : Usable(refs[d])}
        unm == {d \in 1..NData : IsUnm(refs[d]) \/ (~Bad(refs[d]) /\ DeepUnm(refs[d]))}
        nontriv == \E d \in usable : NonEmpty(refs[d])
        changed == in # out
    IN IF ~WellFormed(out) THEN Verdict(r.id, "REJECT", "WellFormed", 0, nontriv, changed, "")
       ELSE IF ~r.flags.compiles THEN Verdict(r.id, "REJECT", "Compiles", 0, nontriv, changed, "")
       ELSE IF ~(FVars(out) \subseteq FVars(in)) THEN
            Verdict(r.id, "REJECT", "Scoped", 0, nontriv, changed, "")
       ELSE IF \E d \in usable : EvalOn(out, d) # refs[d] THEN
            Verdict(r.id, "REJECT", "Preserve",
                    CHOOSE d \in usable : EvalOn(out, d) # refs[d], nontriv, changed, "")
       ELSE IF r.flags.shape /\ ~ShapeOK(in, out) THEN
            Verdict(r.id, "REJECT", "Shape", 0, nontriv, changed, "")
       ELSE IF usable = {} /\ unm # {} THEN
            Verdict(r.id, "UNMODELLED", refs[CHOOSE d \in unm : TRUE].s, 0, FALSE, changed, "")
       ELSE Verdict(r.id, "ACCEPT", "", 0, nontriv, changed, "")

Judge(r) ==
    CASE r.pass = "simplify" -> JudgeSimplify(r)
      [] OTHER -> Verdict(r.id, "UNMODELLED", "pass", 0, FALSE, FALSE, r.pass)

VARIABLE l
Init == l = 1
Next == /\ l <= Len(Trace)
        /\ l' = l + 1
        /\ Serialize(ToJson(Judge(Trace[l])) \o "\n", IOEnv.OUT_FILE, AppendOpt).exitValue = 0
Spec == Init /\ [][Next]_l
(* every record was consumed *)
Accepted == TLCGet("stats").diameter - 1 = Len(Trace)
=============================================================================
