----------------------------- MODULE TracePass -----------------------------
(***************************************************************************)
(* Trace validation of recorded (input, output | exception) pairs of the   *)
(* pure AST passes against their *relational* specification.               *)
(*                                                                         *)
(* One ndjson line per recorded call:                                      *)
(*   [id, pass, in, out, exc, flags]                                       *)
(* One verdict line per record: [id, v, clause, d, nontrivial, changed]    *)
(*   v = ACCEPT | REJECT | UNMODELLED ; clause names the failing conjunct  *)
(* The clauses are the listed properties' own words; nothing compares with *)
(* a reference output unless the property itself is an exact rewrite.      *)
(***************************************************************************)
EXTENDS Passes, Json, IOUtils

Trace == ndJsonDeserialize(IOEnv.IN_FILE)
AppendOpt == [format |-> "TXT", charset |-> "UTF-8",
              openOptions |-> <<"WRITE", "CREATE", "APPEND">>]

Verdict(id, v, clause, d, nontriv, changed, info) ==
    [id |-> id, v |-> v, clause |-> clause, d |-> d, nontrivial |-> nontriv,
     changed |-> changed, info |-> info]

(* datasets on which the original is a usable reference *)
RefVals(t) == [d \in 1..NData |-> EvalOn(t, d)]
NonEmpty(v) == ~Bad(v) /\ (v.t \notin {"list", "tup"} \/ Len(v.e) > 0)

(* ---- simplify_chained_calls : C02 (Scoped, Preserve), C18 (Total, WellFormed, *)
(*      Compiles, IndexErrorDue), C14 (Shape, only when flags.shape)             *)
JudgeSimplify(r) ==
    LET in == r.in IN
    IF r.exc # "" THEN
        IF r.exc = "FuncADLIndexError" THEN
            IF IndexErrorPossible(in) THEN Verdict(r.id, "ACCEPT", "IndexErrorDue", 0, FALSE, FALSE, "")
            ELSE Verdict(r.id, "REJECT", "IndexErrorNotDue", 0, TRUE, FALSE, r.exc)
        ELSE Verdict(r.id, "REJECT", "Total", 0, TRUE, FALSE, r.exc)
    ELSE
    LET out == r.out
        refs == RefVals(in)
        usable == {d \in 1..NData : Usable(refs[d])}
        unm == {d \in 1..NData : IsUnm(refs[d]) \/ (~Bad(refs[d]) /\ DeepUnm(refs[d]))}
        nontriv == \E d \in usable : NonEmpty(refs[d])
        changed == in # out
    IN IF ~WellFormed(out) THEN Verdict(r.id, "REJECT", "WellFormed", 0, nontriv, changed, "")
       ELSE IF ~r.flags.compiles THEN Verdict(r.id, "REJECT", "Compiles", 0, nontriv, changed, "")
       ELSE IF r.flags.shape /\ OnlyTakenApart(in) /\ LeftoverProj(in, out) THEN
            Verdict(r.id, "REJECT", "Shape", 0, nontriv, changed, "")
       ELSE IF ~(FVars(out) \subseteq FVars(in) \cup (IF r.pass = "helper" THEN HelperNames ELSE {})) THEN
            \* (a helper may legitimately be left as a call by name: C05)
            Verdict(r.id, "REJECT", "Scoped", 0, nontriv, changed, "")
       ELSE IF \E d \in usable : EvalOn(out, d) # refs[d] THEN
            Verdict(r.id, "REJECT", "Preserve",
                    CHOOSE d \in usable : EvalOn(out, d) # refs[d], nontriv, changed, "")
       ELSE IF r.flags.shape /\ ~ShapeOK(in, out) THEN
            Verdict(r.id, "REJECT", "Shape", 0, nontriv, changed, "")
       ELSE IF usable = {} /\ unm # {} THEN
            Verdict(r.id, "UNMODELLED", refs[CHOOSE d \in unm : TRUE].s, 0, FALSE, changed, "")
       ELSE Verdict(r.id, "ACCEPT", "", 0, nontriv, changed, "")

(* ---- change_extension_functions_to_calls : C17 ---- *)
JudgeToFunc(r) ==
    IF r.exc # "" THEN Verdict(r.id, "REJECT", "Total", 0, TRUE, FALSE, r.exc)
    ELSE
    LET in == r.in  out == r.out
        refs == RefVals(in)
        usable == {d \in 1..NData : Usable(refs[d])}
        nontriv == HasMethodFormOp(in)
        changed == in # out
    IN IF out # ToFunctionForm(in) THEN Verdict(r.id, "REJECT", "Exact", 0, nontriv, changed, "")
       ELSE IF HasMethodFormOp(out) THEN Verdict(r.id, "REJECT", "MethodFormLeft", 0, nontriv, changed, "")
       ELSE IF r.out2 # out THEN Verdict(r.id, "REJECT", "Idempotent", 0, nontriv, changed, "")
       ELSE IF \E d \in usable : EvalOn(out, d) # refs[d] THEN
            Verdict(r.id, "REJECT", "Preserve",
                    CHOOSE d \in usable : EvalOn(out, d) # refs[d], nontriv, changed, "")
       ELSE Verdict(r.id, "ACCEPT", IF usable = {} THEN "structure-only" ELSE "", 0, nontriv, changed, "")

(* ---- aggregate_node_transformer : C19 ---- *)
JudgeAggregate(r) ==
    IF r.exc # "" THEN Verdict(r.id, "REJECT", "Total", 0, TRUE, FALSE, r.exc)
    ELSE
    LET in == r.in  out == r.out
        refs == RefVals(in)
        usable == {d \in 1..NData : Usable(refs[d])}
        nontriv == HasShortcut(in)
        changed == in # out
    IN IF ~AggMatch(in, out) THEN Verdict(r.id, "REJECT", "Skeleton", 0, nontriv, changed, "")
       ELSE IF HasShortcut(out) THEN Verdict(r.id, "REJECT", "ShortcutLeft", 0, nontriv, changed, "")
       ELSE IF ~FoldsRight(in, out) THEN Verdict(r.id, "REJECT", "FoldValue", 0, nontriv, changed, "")
       ELSE IF \E d \in usable : EvalOn(out, d) # refs[d] THEN
            Verdict(r.id, "REJECT", "Preserve",
                    CHOOSE d \in usable : EvalOn(out, d) # refs[d], nontriv, changed, "")
       ELSE Verdict(r.id, "ACCEPT", IF usable = {} THEN "structure-only" ELSE "", 0, nontriv, changed, "")

(* ---- extract_metadata / remove_empty_metadata : C15 ---- *)
JudgeExtract(r) ==
    IF r.exc # "" THEN Verdict(r.id, "REJECT", "Total", 0, TRUE, FALSE, r.exc)
    ELSE
    LET in == r.in  out == r.out
        paths == MDPaths(in, <<>>)
        nontriv == paths # {}
    IN IF out # StripMD(in) THEN Verdict(r.id, "REJECT", "Strip", 0, nontriv, in # out, "")
       ELSE IF Len(r.extra) # Cardinality(paths) THEN
            Verdict(r.id, "REJECT", "ListCount", 0, nontriv, in # out, "")
       ELSE IF ~LinExt(in, r.extra, paths) THEN
            Verdict(r.id, "REJECT", "ListOrder", 0, nontriv, in # out, "")
       ELSE Verdict(r.id, "ACCEPT", "", 0, nontriv, in # out, "")

JudgeRemoveEmpty(r) ==
    IF r.exc # "" THEN Verdict(r.id, "REJECT", "Total", 0, TRUE, FALSE, r.exc)
    ELSE
    LET in == r.in  out == r.out
        nontriv == \E w \in MDPaths(in, <<>>) : IsEmptyDict(At(in, w).a[3])
    IN IF out # RemoveEmptyMD(in) THEN Verdict(r.id, "REJECT", "Exact", 0, nontriv, in # out, "")
       ELSE IF ~r.flags.input_unchanged THEN
            Verdict(r.id, "REJECT", "InputModified", 0, nontriv, in # out, "")
       \* the nodes that are kept keep what is attached to them (query metadata, executor references): nothing else changes
       ELSE IF "annotations_kept" \in DOMAIN r.flags /\ ~r.flags.annotations_kept THEN
            Verdict(r.id, "REJECT", "AnnotationLost", 0, nontriv, in # out, "")
       ELSE Verdict(r.id, "ACCEPT", "", 0, nontriv, in # out, "")

(* ---- resolve_syntatic_sugar : C06 ---- *)
JudgeSugar(r) ==
    IF r.flags.malformed THEN      \* tuple target / async comprehension: must be refused with ValueError
        (IF r.exc = "ValueError" THEN Verdict(r.id, "ACCEPT", "malformed-refused", 0, TRUE, FALSE, "")
         ELSE Verdict(r.id, "REJECT", "MalformedNotRefused", 0, TRUE, FALSE, r.exc))
    ELSE IF r.exc # "" THEN Verdict(r.id, "REJECT", "Total", 0, TRUE, FALSE, r.exc)
    ELSE
    LET in == r.in  out == r.out
        refs == RefVals(in)
        usable == {d \in 1..NData : Usable(refs[d])}
        nontriv == HasKind(in, {"comp"}) /\ \E d \in usable : NonEmpty(refs[d])
    IN IF HasKind(out, {"comp"}) THEN Verdict(r.id, "REJECT", "NotLowered", 0, nontriv, in # out, "")
       ELSE IF ~WellFormed(out) THEN Verdict(r.id, "REJECT", "WellFormed", 0, nontriv, in # out, "")
       ELSE IF ~(FVars(out) \subseteq FVars(in)) THEN Verdict(r.id, "REJECT", "Scoped", 0, nontriv, in # out, "")
       ELSE IF \E d \in usable : EvalOn(out, d) # refs[d] THEN
            Verdict(r.id, "REJECT", "Preserve",
                    CHOOSE d \in usable : EvalOn(out, d) # refs[d], nontriv, in # out, "")
       ELSE Verdict(r.id, "ACCEPT", IF usable = {} THEN "structure-only" ELSE "", 0, nontriv, in # out, "")

(* constructor record: [id, pass = "ctor", sig, shape, out (the dict term or absent), exc] *)
JudgeCtor(r) ==
    IF CtorMalformed(r.sig, r.shape) THEN
        IF r.exc = "ValueError" THEN Verdict(r.id, "ACCEPT", "malformed-refused", 0, TRUE, FALSE, "")
        ELSE Verdict(r.id, "REJECT", "MalformedNotRefused", 0, TRUE, FALSE, r.exc)
    ELSE IF CtorOmitsRequired(r.sig, r.shape) THEN
        Verdict(r.id, "ACCEPT", "unconstrained", 0, FALSE, FALSE, r.exc)
    ELSE IF r.exc # "" THEN Verdict(r.id, "REJECT", "Total", 0, TRUE, FALSE, r.exc)
    ELSE IF ~CtorDictOK(r.sig, r.shape, r.out, r.flags.zkw) THEN Verdict(r.id, "REJECT", "FieldBinding", 0, TRUE, TRUE, "")
    ELSE Verdict(r.id, "ACCEPT", "", 0, TRUE, TRUE, "")

(* ---- end to end : C01.  record: [id, pass = "e2e", in (the user's chain as a term), out (the AST the     *)
(*      executor received), out2 (after the backend passes), mean: Seq over datasets of the value CPython    *)
(*      computed running the chain directly on the model data, exc]                                          *)
(* the term's value on dataset d is inside the modelled fragment (no 32-bit guard hit) and is not the reference *)
Differs(t, d, ref) == LET v == EvalOn(t, d) IN ~IsUnm(v) /\ ~DeepUnm(v) /\ v # ref
JudgeE2E(r) ==
    IF r.exc # "" THEN Verdict(r.id, "REJECT", "Raised", 0, TRUE, FALSE, r.exc)
    ELSE
    LET usable == {d \in 1..NData : Usable(r.mean[d])}
        nontriv == \E d \in usable : NonEmpty(r.mean[d])
        (* spec honesty: the specification's own reading of the user's chain must agree with CPython *)
        oracleBad == {d \in 1..NData : LET v == EvalOn(r.in, d) IN
                         ~IsUnm(v) /\ ~DeepUnm(v) /\ ~IsUnm(r.mean[d]) /\
                         (IF IsErr(v) \/ IsErr(r.mean[d]) THEN IsErr(v) # IsErr(r.mean[d]) ELSE v # r.mean[d])}
    IN IF oracleBad # {} THEN Verdict(r.id, "ORACLE", "SemVsCPython", CHOOSE d \in oracleBad : TRUE, nontriv, FALSE, "")
       ELSE IF ~WellFormed(r.out) THEN Verdict(r.id, "REJECT", "WellFormed", 0, nontriv, TRUE, "")
       ELSE IF \E d \in usable : Differs(r.out, d, r.mean[d]) THEN
            Verdict(r.id, "REJECT", "ExecutorAst", CHOOSE d \in usable : Differs(r.out, d, r.mean[d]), nontriv, TRUE, "")
       ELSE IF r.exc2 # "" THEN Verdict(r.id, "REJECT", "BackendRaised", 0, nontriv, TRUE, r.exc2)
       ELSE IF \E d \in usable : Differs(r.out2, d, r.mean[d]) THEN
            Verdict(r.id, "REJECT", "AfterBackendPasses",
                    CHOOSE d \in usable : Differs(r.out2, d, r.mean[d]), nontriv, TRUE, "")
       ELSE IF usable = {} THEN Verdict(r.id, "ACCEPT", "vacuous", 0, FALSE, TRUE, "")
       ELSE Verdict(r.id, "ACCEPT", "", 0, nontriv, TRUE, "")

(* ---- wild stream records (C11): after an operation in one of the repository's tests, every live stream *)
(*      still shows its creation-time query and type                                                       *)
JudgeImm(r) ==
    IF Len(r.views0) # Len(r.views1) THEN Verdict(r.id, "REJECT", "Harness", 0, TRUE, FALSE, "")
    ELSE IF \E i \in 1..Len(r.views0) : r.views0[i] # r.views1[i] \/ r.types0[i] # r.types1[i] THEN
         Verdict(r.id, "REJECT", "Imm", CHOOSE i \in 1..Len(r.views0) : r.views0[i] # r.views1[i] \/ r.types0[i] # r.types1[i],
                 TRUE, TRUE, r.op)
    ELSE Verdict(r.id, "ACCEPT", "", 0, Len(r.views0) >= 2, FALSE, r.op)

Judge(r) ==
    CASE r.pass = "simplify" -> JudgeSimplify(r)
      [] r.pass = "imm" -> JudgeImm(r)
      [] r.pass = "e2e" -> JudgeE2E(r)
      [] r.pass = "sugar" -> JudgeSugar(r)
      [] r.pass = "helper" -> JudgeSimplify(r)     \* same relational clauses: Scoped, Preserve, WellFormed
      [] r.pass = "ctor" -> JudgeCtor(r)
      [] r.pass = "tofunc" -> JudgeToFunc(r)
      [] r.pass = "aggregate" -> JudgeAggregate(r)
      [] r.pass = "extract_md" -> JudgeExtract(r)
      [] r.pass = "remove_empty_md" -> JudgeRemoveEmpty(r)
      [] OTHER -> Verdict(r.id, "UNMODELLED", "pass", 0, FALSE, FALSE, r.pass)

VARIABLE l
Init == l = 1
Next == /\ l <= Len(Trace)
        /\ l' = l + 1
        /\ Serialize(ToJson(Judge(Trace[l])) \o "\n", IOEnv.OUT_FILE, AppendOpt).exitValue = 0
Spec == Init /\ [][Next]_l
(* every record was consumed *)
Accepted == TLCGet("stats").diameter - 1 = Len(Trace)
=============================================================================
