----------------------------- MODULE GenRegistry -----------------------------
(* Exports every maximal history of the Registry machine, with what each build must show. *)
EXTENDS Registry, Json, IOUtils
AppendOpt == [format |-> "TXT", charset |-> "UTF-8",
              openOptions |-> <<"WRITE", "CREATE", "APPEND">>]
Export == Len(hist) < MaxSteps \/
          Serialize(ToJson(hist) \o "\n", IOEnv.OUT_FILE, AppendOpt).exitValue = 0
=============================================================================
