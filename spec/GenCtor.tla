------------------------------- MODULE GenCtor -------------------------------
(* C06 generator for data-class / NamedTuple constructor calls: field lists    *)
(* (1..MaxFields fields, the first r required) x argument bindings: k          *)
(* positional (also one too many), any ordered subset of field names and an    *)
(* unknown name by keyword (also fields already bound positionally).           *)
EXTENDS TypeFollow, Json, IOUtils
CONSTANTS MaxFields
FNames == <<"a", "b", "c", "d">>
RECURSIVE Perms(_)
Perms(S) == IF S = {} THEN {<<>>} ELSE UNION {{<<x>> \o p : p \in Perms(S \ {x})} : x \in S}
OrderedSubsets(S) == UNION {Perms(Q) : Q \in SUBSET S}
(* dk = "none1": the first defaulted field has a default that is not a literal of a transportable type (None); *)
(* the defaulted fields after it have integer defaults                                                         *)
Sigs == UNION {{[n |-> n, r |-> r, dk |-> "int"] : r \in 0..n} : n \in 1..MaxFields}
          \cup UNION {{[n |-> n, r |-> r, dk |-> "none1"] : r \in 0..(n - 2)} : n \in 2..(MaxFields + 1)}
Shapes(sg) == UNION {{[npos |-> np, kws |-> ks] :
                         ks \in {q \in OrderedSubsets({FNames[i] : i \in 1..sg.n} \cup {"zz"}) : Len(q) <= 2}} :
                        np \in 0..(sg.n + 1)}
Cases == UNION {{[sig |-> sg, shape |-> sh, cls |-> kind, route |-> rt] :
                    sh \in Shapes(sg), kind \in (IF sg.dk = "none1" THEN {"dataclass", "namedtuple"}
                                                  ELSE {"dataclass", "namedtuple", "dataclass_initfalse", "dataclass_kwonly",
                                                        "dataclass_derived"}),    \* (the last field added by a subclass of a dataclass that was lowered before)
                    rt \in {"direct", "select"}} :
                  sg \in Sigs}
VARIABLE cs
Init == cs \in Cases
Next == UNCHANGED cs
Spec == Init /\ [][Next]_cs
AppendOpt == [format |-> "TXT", charset |-> "UTF-8",
              openOptions |-> <<"WRITE", "CREATE", "APPEND">>]
Export == Serialize(ToJson(cs) \o "\n", IOEnv.OUT_FILE, AppendOpt).exitValue = 0
=============================================================================
