---------------------------- MODULE TraceStreams ----------------------------
(***************************************************************************)
(* Trace validation of recorded ObjectStream histories against the         *)
(* ABSTRACT design of Streams.tla (streams are immutable values; executors *)
(* get exactly the cleaned view of the stream; query metadata is a map     *)
(* inherited along the derivation path).  Only ghost state is used: the    *)
(* verdict is the property, not the heap model.                            *)
(*                                                                         *)
(* record: [tid, step, a (the action, as exported by GenStreams), views,   *)
(*          types, lookups, newexec, done, exc]                            *)
(* verdict: [tid, step, ok, clauses]                                       *)
(***************************************************************************)
EXTENDS StreamsDefs, Json, IOUtils

Trace == ndJsonDeserialize(IOEnv.IN_FILE)
AppendOpt == [format |-> "TXT", charset |-> "UTF-8",
              openOptions |-> <<"WRITE", "CREATE", "APPEND">>]

RECURSIVE FoldSum(_)
FoldSum(sq) == IF sq = <<>> THEN 0 ELSE Head(sq) + FoldSum(Tail(sq))
KeySeq == <<"a", "b">>
NoQ == [i \in 1..Len(KeySeq) |-> 0]
KeyIx(k) == CHOOSE i \in 1..Len(KeySeq) : KeySeq[i] = k

VARIABLES l,       \* next record
          g,       \* ghost streams: Seq of [view, type, ds, qmd]
          calls,   \* executions started: Seq of [c, s, title, ovr]
          nds      \* datasets created
tvars == <<l, g, calls, nds>>

G(view, type, ds, qmd) == [view |-> view, type |-> type, ds |-> ds, qmd |-> qmd]

RECURSIVE NRoots(_)
(* (a dataset node is a root whatever its own arguments hold: a "skim" dataset carries another dataset's query there) *)
NRoots(t) == IF IsCallOf(t, "EventDataset") THEN 1 ELSE FoldSum([i \in 1..Len(t.a) |-> NRoots(t.a[i])])

(* the stream an action creates, per the abstract design; <<>> if it creates none *)
Created(a, gs, n) ==
    CASE a.act = "NewDataset" -> <<G(Fn("EventDataset", <<>>), a.op, n + 1, NoQ)>>
      [] a.act = "NewNameRoot" -> <<G(Name("e"), "Any", 0, NoQ)>>
      [] a.act = "NewSkim" -> <<G(Fn("EventDataset", <<gs[a.s].view>>), a.op, n + 1, NoQ)>>
      [] a.act = "Derive" ->
           <<G(Fn(a.op, <<gs[a.s].view, Emitted(a.t, gs[a.s].type)>>), StreamType(a.op, a.t, gs[a.s].type),
               gs[a.s].ds, gs[a.s].qmd)>>
      [] a.act = "DeriveCross" ->
           <<G(Fn("Select", <<gs[a.s].view, Lam1("e", gs[a.c].view)>>), "Any", gs[a.s].ds, gs[a.s].qmd)>>
      [] a.act = "MetaData" ->
           <<G(Fn("MetaData", <<gs[a.s].view, a.t>>), gs[a.s].type, gs[a.s].ds, gs[a.s].qmd)>>
      [] a.act = "QMetaData" ->
           <<G(gs[a.s].view, gs[a.s].type, gs[a.s].ds, [gs[a.s].qmd EXCEPT ![KeyIx(a.k)] = a.v])>>
      [] a.act = "QMetaData2" ->
           <<G(gs[a.s].view, gs[a.s].type, gs[a.s].ds, <<a.v, a.c>>)>>
      [] a.act = "Terminal" ->
           <<G(Fn("ResultAwkwardArray", <<gs[a.s].view, Lst(<<StrC("c")>>)>>), "Any", gs[a.s].ds, gs[a.s].qmd)>>
      [] OTHER -> <<>>

Clauses(r, gs, cs, n) ==
    LET a == r.a
        newg == gs \o Created(a, gs, n)
        imm == /\ Len(r.views) >= Len(gs) /\ Len(r.types) >= Len(gs)
               /\ \A s \in 1..Len(gs) : r.views[s] = gs[s].view /\ r.types[s] = gs[s].type
        wrap == /\ Len(r.views) = Len(newg)
                /\ \A s \in (Len(gs) + 1)..Len(newg) : r.views[s] = newg[s].view
        ntype == /\ Len(r.types) = Len(newg)
                 /\ \A s \in (Len(gs) + 1)..Len(newg) : r.types[s] = newg[s].type
        (* what a lookup shows: the value 4 stands for None, which a lookup cannot tell from "never set" (0) *)
        qmd == /\ Len(r.lookups) = Len(newg)
               /\ \A s \in 1..Len(newg) :
                     r.lookups[s] = [i \in 1..Len(newg[s].qmd) |-> IF newg[s].qmd[i] = 4 THEN 0 ELSE newg[s].qmd[i]]
        isval == a.act \in {"ValueStart", "ValueSync"}
        noexec == isval \/ r.newexec = <<>>
        onecall == ~isval \/ Len(r.newexec) = 1
        e == r.newexec[1]
        routed == ~isval \/ Len(r.newexec) # 1 \/
                    e.target = (IF a.op = "override" THEN 0 ELSE gs[a.s].ds)
        cleanast == ~isval \/ Len(r.newexec) # 1 \/ e.ast = RemoveEmptyMD(gs[a.s].view)
        title == ~isval \/ Len(r.newexec) # 1 \/ e.title = a.title
        hashq == ~isval \/ Len(r.newexec) # 1 \/ (e.hash = e.shash /\ e.dump = e.sdump)
        iscomp == a.act \in {"ExecReturn", "ExecRaise", "ValueSync"}
        deliver == IF iscomp
                   THEN /\ Len(r.done) = 1
                        /\ r.done[1].c = a.c
                        /\ r.done[1].kind = (CASE a.act = "ExecReturn" -> "ret" [] a.act = "ExecRaise" -> "raise"
                                                [] OTHER -> a.op)
                        /\ r.done[1].val = a.v
                   ELSE r.done = <<>>
        noexc == r.exc = ""
        (* find_EventDataset: the one dataset of the query; a query that holds several dataset nodes is rejected (0) *)
        findroot == /\ Len(r.roots) = Len(newg)
                    /\ \A s \in 1..Len(newg) : r.roots[s] = (IF NRoots(newg[s].view) > 1 THEN 0 ELSE newg[s].ds)
        mixrej == \A i \in 1..Len(r.mix) : r.mix[i].raised
    IN (IF imm THEN <<>> ELSE <<"Imm">>) \o (IF wrap THEN <<>> ELSE <<"Wrap">>)
       \o (IF ntype THEN <<>> ELSE <<"NewType">>) \o (IF qmd THEN <<>> ELSE <<"Qmd">>)
       \o (IF noexec THEN <<>> ELSE <<"ExecWhileBuilding">>) \o (IF onecall THEN <<>> ELSE <<"OneCall">>)
       \o (IF routed THEN <<>> ELSE <<"Routed">>) \o (IF cleanast THEN <<>> ELSE <<"CleanAst">>)
       \o (IF title THEN <<>> ELSE <<"Title">>) \o (IF hashq THEN <<>> ELSE <<"QmdHash">>)
       \o (IF deliver THEN <<>> ELSE <<"Deliver">>) \o (IF noexc THEN <<>> ELSE <<"Raised">>)
       \o (IF findroot THEN <<>> ELSE <<"FindRoot">>) \o (IF mixrej THEN <<>> ELSE <<"MixNotRejected">>)

Init == l = 1 /\ g = <<>> /\ calls = <<>> /\ nds = 0
Next ==
    /\ l <= Len(Trace)
    /\ LET r == Trace[l]
           gs == IF r.step = 1 THEN <<>> ELSE g        \* a new history resets the ghost state
           cs == IF r.step = 1 THEN <<>> ELSE calls
           n  == IF r.step = 1 THEN 0 ELSE nds
           cl == Clauses(r, gs, cs, n)
       IN /\ g' = gs \o Created(r.a, gs, n)
          /\ calls' = IF r.a.act \in {"ValueStart", "ValueSync"} THEN Append(cs, r.a) ELSE cs
          /\ nds' = IF r.a.act \in {"NewDataset", "NewSkim"} THEN n + 1 ELSE n
          /\ Serialize(ToJson([tid |-> r.tid, step |-> r.step, ok |-> cl = <<>>, clauses |-> cl]) \o "\n",
                       IOEnv.OUT_FILE, AppendOpt).exitValue = 0
    /\ l' = l + 1
Spec == Init /\ [][Next]_tvars
Accepted == TLCGet("stats").diameter - 1 = Len(Trace)
=============================================================================
