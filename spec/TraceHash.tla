----------------------------- MODULE TraceHash -----------------------------
(***************************************************************************)
(* C20: over the recorded table of (term of the AST, calc_ast_hash) pairs, *)
(* the hash must be a function of the structure (Stable) and injective on  *)
(* it (Sensitive):  h_i = h_j  <=>  t_i = t_j.                             *)
(* record: [id, tk, h, ok]; tk = canonical text of the term (atomic for TLC, *)
(* so that comparing two structures is one string comparison); ok = the     *)
(* function returned a value (a query that cannot be hashed at all has no   *)
(* hash to compare: clause Defined).                                        *)
(***************************************************************************)
EXTENDS Terms, Json, IOUtils

Trace == ndJsonDeserialize(IOEnv.IN_FILE)
AppendOpt == [format |-> "TXT", charset |-> "UTF-8",
              openOptions |-> <<"WRITE", "CREATE", "APPEND">>]
N == Len(Trace)
Pairs == {<<Trace[i].tk, Trace[i].h>> : i \in {j \in 1..N : Trace[j].ok}}
Defined == \A i \in 1..N : Trace[i].ok
Structures == {p[1] : p \in Pairs}
Hashes == {p[2] : p \in Pairs}
Stable == Cardinality(Pairs) = Cardinality(Structures)       \* one hash per structure
Sensitive == Cardinality(Pairs) = Cardinality(Hashes)        \* one structure per hash

VARIABLE l
Init == l = 0
Next == /\ l = 0 /\ l' = 1
        /\ Serialize(ToJson([stable |-> Stable, sensitive |-> Sensitive, defined |-> Defined, pairs |-> Cardinality(Pairs),
                             structures |-> Cardinality(Structures), n |-> N]) \o "\n",
                     IOEnv.OUT_FILE, AppendOpt).exitValue = 0
Spec == Init /\ [][Next]_l
Accepted == TRUE
=============================================================================
