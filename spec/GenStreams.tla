----------------------------- MODULE GenStreams -----------------------------
(* Exports every maximal history of the Streams state machine (one ndjson   *)
(* line per history) for replay on the real ObjectStream / EventDataset.    *)
EXTENDS Streams, Json, IOUtils
AppendOpt == [format |-> "TXT", charset |-> "UTF-8",
              openOptions |-> <<"WRITE", "CREATE", "APPEND">>]
Export == Len(hist) < MaxSteps \/
          Serialize(ToJson(hist) \o "\n", IOEnv.OUT_FILE, AppendOpt).exitValue = 0
=============================================================================
