------------------------------ MODULE Capture ------------------------------
(***************************************************************************)
(* C04: captured variables are frozen by value at the call, respecting     *)
(* scope.  Python name resolution for a lambda created in a function in a  *)
(* module: closure cells (v, w), module globals (G, w), class constants    *)
(* (K.C, K.Inner.D), module attributes (aux.M); the closure wins over a    *)
(* global of the same name.  State machine: Build a query from a lambda    *)
(* shape (snapshot!), rebind / delete the captured names, build more.      *)
(* Every built query must forever show Expected(shape, snapshot).          *)
(***************************************************************************)
EXTENDS CaptureDefs

CONSTANTS MaxSteps, MaxBuilt
VARIABLES env,      \* current values: [v, G, C, D, M, wc, wg]; G may be "deleted"
          built,    \* Seq of [shape, snap, refused]
          hist
vars == <<env, built, hist>>

Act(nm, sh, slot, val) == [act |-> nm, sh |-> sh, slot |-> slot, val |-> val]
Init == /\ env = [v |-> IntC(1), G |-> IntC(2), C |-> IntC(3), D |-> IntC(4), M |-> IntC(5),
                  wc |-> IntC(6), wg |-> IntC(7)]
        /\ built = <<>> /\ hist = <<>>
Build(sh) == /\ Len(hist) < MaxSteps /\ Len(built) < MaxBuilt
             /\ ~UsesDeleted(sh, env)
             /\ built' = Append(built, [shape |-> sh, snap |-> env, refused |-> Refused(sh, env)])
             /\ hist' = Append(hist, Act("Build", sh, "", Absent))
             /\ UNCHANGED env
Rebind(slot, val) == /\ Len(hist) < MaxSteps
                     /\ env[slot] # val
                     /\ env' = [env EXCEPT ![slot] = val]
                     /\ hist' = Append(hist, Act("Rebind", "", slot, val))
                     /\ UNCHANGED built
DelGlobal == /\ Len(hist) < MaxSteps /\ env.G # Deleted
             /\ env' = [env EXCEPT !.G = Deleted]
             /\ hist' = Append(hist, Act("DelGlobal", "", "G", Absent))
             /\ UNCHANGED built
DelClosure == /\ Len(hist) < MaxSteps /\ env.v # Deleted
              /\ env' = [env EXCEPT !.v = Deleted]
              /\ hist' = Append(hist, Act("DelClosure", "", "v", Absent))
              /\ UNCHANGED built
Next == \/ \E sh \in Shapes : Build(sh)
        \/ DelClosure
        \/ \E slot \in Slots, val \in Vals : Rebind(slot, val)
        \/ DelGlobal
Spec == Init /\ [][Next]_vars

(* design-level property: what a built query must show never depends on later rebinding *)
Frozen == [][\A i \in 1..Len(built) : built'[i] = built[i]]_vars
NoHistView == <<env, built, Len(hist)>>
=============================================================================
