------------------------------ MODULE GenCalls ------------------------------
(***************************************************************************)
(* C07 generator: every signature with 0..MaxParams parameters (required   *)
(* parameters first, as Python demands), every call shape Python accepts   *)
(* (k positional, any ordered subset of the remaining parameters by        *)
(* keyword) plus the shapes that miss a required parameter, times the      *)
(* placements (contexts) of the call site.  One behaviour = one case.      *)
(***************************************************************************)
EXTENDS TypeFollow, Json, IOUtils

CONSTANTS MaxParams, Contexts

ParamNames == <<"a", "b", "c", "d">>

RECURSIVE Perms(_)
Perms(S) == IF S = {} THEN {<<>>} ELSE UNION {{<<x>> \o p : p \in Perms(S \ {x})} : x \in S}
OrderedSubsets(S) == UNION {Perms(Q) : Q \in SUBSET S}

(* a signature: n parameters, the first r required; dk = kind of default values *)
(* ko = how many of the LAST parameters are keyword-only (declared after a bare star): they can only be given by keyword,    *)
(* and the emitted call still carries them at their position                                                          *)
Sigs == UNION {{[n |-> n, r |-> r, dk |-> dk, ko |-> ko] : r \in 0..n, dk \in (IF n > 0 THEN {"int", "str"} ELSE {"int"}),
                                                            ko \in 0..(IF n < 2 THEN n ELSE 2)} :
                  n \in 0..MaxParams}
SigsU == {sg \in Sigs : sg.dk = "int" \/ sg.n > sg.r}      \* str defaults only matter if there is a default
Shapes(sg) == UNION {{[npos |-> np, kws |-> ks] :
                         ks \in OrderedSubsets({ParamNames[i] : i \in (np + 1)..sg.n})} : np \in 0..(sg.n - sg.ko)}
Cases == UNION {{[sig |-> sg, shape |-> sh, ctx |-> cx] : sh \in Shapes(sg), cx \in Contexts} : sg \in SigsU}

VARIABLE cs
Init == cs \in Cases
Next == UNCHANGED cs
Spec == Init /\ [][Next]_cs
AppendOpt == [format |-> "TXT", charset |-> "UTF-8",
              openOptions |-> <<"WRITE", "CREATE", "APPEND">>]
Export == Serialize(ToJson(cs) \o "\n", IOEnv.OUT_FILE, AppendOpt).exitValue = 0
=============================================================================
