----------------------------- MODULE TraceUtils -----------------------------
(***************************************************************************)
(* The small public helpers backends and the library's own passes build on *)
(* (func_adl.util_ast lambda_* / function_call, func_adl.ast.func_adl_ast_  *)
(* utils is_call_of / unpack_Call), as functions on terms, and the judge    *)
(* for recorded calls.  Not tied to one listed property (an extra check:    *)
(* bin/check utils).                                                        *)
(* record: [id, fn, t, wrap ("none" | "module" | "module2"), names, nargs   *)
(*          (-1 = None), t2, args, res: [kind, b, t, names, n, name, args]] *)
(***************************************************************************)
EXTENDS Terms, Json, IOUtils, TLC

Trace == ndJsonDeserialize(IOEnv.IN_FILE)
AppendOpt == [format |-> "TXT", charset |-> "UTF-8", openOptions |-> <<"WRITE", "CREATE", "APPEND">>]
NoT == T("absent", "", 0, <<>>, <<>>)
Res(kind, b, t, names, n, name, args) ==
    [kind |-> kind, b |-> b, t |-> t, names |-> names, n |-> n, name |-> name, args |-> args]
RB(b) == Res("bool", b, NoT, <<>>, 0, "", <<>>)
RT(t) == Res("term", FALSE, t, <<>>, 0, "", <<>>)
RExc == Res("exc", FALSE, NoT, <<>>, 0, "", <<>>)

IsLam(t) == t.k = "lam"
(* what lambda_test accepts: a Lambda node, or a Module holding exactly one expression statement that is one *)
LamTest(r) == IsLam(r.t) /\ r.wrap \in {"none", "module"} /\ (r.nargs = -1 \/ Len(r.t.p) = r.nargs)
(* what lambda_unwrap accepts (it looks at the first statement of a module only) *)
Unwraps(r) == IsLam(r.t)

Expected(r) ==
    CASE r.fn = "lambda_test" -> RB(LamTest(r))
      [] r.fn = "lambda_assure" -> IF LamTest(r) THEN RT(r.t) ELSE RExc
      [] r.fn = "lambda_unwrap" -> IF Unwraps(r) THEN RT(r.t) ELSE RExc
      [] r.fn = "lambda_body" -> IF Unwraps(r) THEN RT(r.t.a[1]) ELSE RExc
      [] r.fn = "lambda_args" -> IF Unwraps(r) THEN Res("names", FALSE, NoT, r.t.p, r.t.n, "", <<>>) ELSE RExc
      [] r.fn = "lambda_call" -> IF Unwraps(r) THEN RT(CallP(r.t, [i \in 1..Len(r.names) |-> Name(r.names[i])])) ELSE RExc
      [] r.fn = "lambda_build" -> RT(Lam(r.names, r.t))
      [] r.fn = "lambda_body_replace" ->
            IF IsLam(r.t) /\ r.wrap = "none" THEN RT([r.t EXCEPT !.a[1] = r.t2]) ELSE RExc
      [] r.fn = "lambda_is_identity" ->
            RB(IsLam(r.t) /\ r.wrap \in {"none", "module"} /\ Len(r.t.p) = 1 /\ r.t.a[1] = Name(r.t.p[1]))
      [] r.fn = "lambda_is_true" -> RB(IsLam(r.t) /\ r.wrap \in {"none", "module"} /\ r.t.a[1] = BoolC(TRUE))
      [] r.fn = "function_call" -> RT(Fn(r.names[1], r.args))
      [] r.fn = "is_call_of" -> RB(IsCallOf(r.t, r.names[1]))
      [] r.fn = "unpack_Call" ->
            IF r.t.k # "call" THEN RExc
            ELSE IF r.t.a[1].k = "name" THEN Res("unpack", TRUE, NoT, <<>>, 0, r.t.a[1].s, CallArgs(r.t))
            ELSE Res("unpack", FALSE, NoT, <<>>, 0, "", <<>>)
      [] OTHER -> Res("unmodelled", FALSE, NoT, <<>>, 0, "", <<>>)

VARIABLE l
Init == l = 1
Next == /\ l <= Len(Trace)
        /\ l' = l + 1
        /\ LET r == Trace[l]  e == Expected(r) IN
           Serialize(ToJson([id |-> r.id, ok |-> e = r.res, fn |-> r.fn,
                             clause |-> IF e = r.res THEN "" ELSE IF e.kind # r.res.kind THEN "Kind:" \o e.kind ELSE "Value"])
                     \o "\n", IOEnv.OUT_FILE, AppendOpt).exitValue = 0
Spec == Init /\ [][Next]_l
Accepted == TLCGet("stats").diameter - 1 = Len(Trace)
=============================================================================
