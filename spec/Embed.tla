------------------------------- MODULE Embed -------------------------------
(***************************************************************************)
(* C13: Python values embedded in a query keep their exact value.          *)
(* A value is a uniform record [vt, n, s, cs, items]:                      *)
(*   str (cs = its characters, one-character strings; s = their join),     *)
(*   int (n), bigint / float (s = the token Python prints), bool (n),      *)
(*   none, bytes (cs = byte values as decimal strings),                    *)
(*   list / tuple (items), dict (items = k1, v1, k2, v2, ..)               *)
(* LitEval gives the value a literal term evaluates to (ast.literal_eval). *)
(***************************************************************************)
EXTENDS Terms

Val(vt, n, s, cs, items) == [vt |-> vt, n |-> n, s |-> s, cs |-> cs, items |-> items]
RECURSIVE Join(_)
Join(cs) == IF cs = <<>> THEN "" ELSE Head(cs) \o Join(Tail(cs))
VStr(cs)   == Val("str", 0, Join(cs), cs, <<>>)
VInt(i)    == Val("int", i, "", <<>>, <<>>)
VBig(tok)  == Val("bigint", 0, tok, <<>>, <<>>)
VFloat(tok) == Val("float", 0, tok, <<>>, <<>>)
VBool(b)   == Val("bool", IF b THEN 1 ELSE 0, "", <<>>, <<>>)
VNone      == Val("none", 0, "", <<>>, <<>>)
VBytes(cs) == Val("bytes", 0, "", cs, <<>>)
VList(xs)  == Val("list", 0, "", <<>>, xs)
VTuple(xs) == Val("tuple", 0, "", <<>>, xs)
VDict(kvs) == Val("dict", 0, "", <<>>, kvs)

(* characters chosen to break naive quoting: quote, double quote, backslash, newline, bracket, *)
(* operator, comment sign, a letter and a non-ASCII letter                                     *)
(* ... and a few whole words that mean something in Python source text (a value rendered to text and read back) *)
Alphabet == {"'", "\"", "\\", "\n", "a", "(", "+", "#", "é", "𝜇",      \* 𝜇 is outside the BMP (U+1D707)
             "nan", "inf", "None", "True"}

(* the comparison form: strings compared by their join only *)
RECURSIVE Norm(_)
Norm(v) == [v EXCEPT !.cs = IF v.vt = "str" THEN <<>> ELSE v.cs,
                     !.items = [i \in 1..Len(v.items) |-> Norm(v.items[i])]]

Bad == Val("notliteral", 0, "", <<>>, <<>>)
RECURSIVE LitEval(_)
LitEval(t) ==
    CASE t.k = "str"    -> Val("str", 0, t.s, <<>>, <<>>)
      [] t.k = "int"    -> VInt(t.n)
      [] t.k = "bigint" -> VBig(t.s)
      [] t.k = "float"  -> VFloat(t.s)
      [] t.k = "bool"   -> Val("bool", t.n, "", <<>>, <<>>)
      [] t.k = "none"   -> VNone
      [] t.k = "bytes"  -> VBytes(t.p)
      [] t.k = "unop" /\ t.s = "-" /\ t.a[1].k = "int" -> VInt(-t.a[1].n)
      [] t.k = "unop" /\ t.s = "-" /\ t.a[1].k \in {"float", "bigint"} ->
              Val(t.a[1].k, 0, "-" \o t.a[1].s, <<>>, <<>>)
      [] t.k \in {"list", "tuple", "dict"} ->
              LET xs == [i \in 1..Len(t.a) |-> LitEval(t.a[i])] IN
              IF \E i \in 1..Len(xs) : xs[i] = Bad THEN Bad
              ELSE Val(t.k, 0, "", <<>>, xs)
      [] OTHER -> Bad

Transportable(v) == v.vt \in {"str", "int", "bigint", "float", "bool", "bytes"}

(* what must be found at the entry point's literal position for a value v *)
Expected(entry, v) ==
    CASE entry = "metadata"     -> VDict(<<VStr(<<"k">>), v>>)
      [] entry = "metadata_key" -> VDict(<<v, VInt(1)>>)
      [] entry \in {"columns_pandas", "columns_awkward", "columns_parquet", "columns_ttree"} ->
             IF v.vt = "str" THEN VList(<<v>>) ELSE v
      [] OTHER -> v     \* file name, tree name, declared default, captured variable

(* entry points that put the value inside a lambda: anything not transportable is refused *)
InLambda(entry) == entry \in {"default", "captured", "captured_global", "captured_modattr", "captured_clsattr",
                              "captured_strenum", "captured_intenum"}
=============================================================================
