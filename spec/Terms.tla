------------------------------- MODULE Terms -------------------------------
(***************************************************************************)
(* Term algebra of func_adl query expressions.                             *)
(*                                                                         *)
(* A term is a uniform record [k, s, n, p, a] (kind, string payload,       *)
(* integer payload, sequence of names, sequence of children) so that TLC   *)
(* can compare / hash any two of them and the community Json module maps   *)
(* them to and from the ndjson the Python harness reads and writes         *)
(* (harness/codec.py is the other half of this encoding).                  *)
(*                                                                         *)
(*  name(s) int(n) bigint(s) bool(n) str(s) none float(s) const(s) absent  *)
(*  attr(s; value)                                                         *)
(*  call(n = #positional, p = keyword names; func, args.., kwvalues..)     *)
(*  lam(p = parameters, n = #defaults; body, defaults..)                   *)
(*  binop(s; l, r) unop(s; x) boolop(s; values..) cmp(p = ops; left, rs..) *)
(*  ifexp(test, body, orelse) tuple(..) list(..) dict(k1, v1, k2, v2, ..)  *)
(*  sub(value, index) slice(lo, hi, step)                                  *)
(*  comp(s = list|gen, p = <<target>>; elt, iter, ifs..)                   *)
(*  hole(...) only inside Grammar derivations; opaque / malformed(s)       *)
(***************************************************************************)
EXTENDS Naturals, Integers, Sequences, FiniteSets, TLC

T(k, s, n, p, a) == [k |-> k, s |-> s, n |-> n, p |-> p, a |-> a]

Name(x)       == T("name", x, 0, <<>>, <<>>)
IntC(i)       == T("int", "", i, <<>>, <<>>)
BoolC(b)      == T("bool", "", IF b THEN 1 ELSE 0, <<>>, <<>>)
StrC(x)       == T("str", x, 0, <<>>, <<>>)
NoneC         == T("none", "", 0, <<>>, <<>>)
Absent        == T("absent", "", 0, <<>>, <<>>)
Attr(v, f)    == T("attr", f, 0, <<>>, <<v>>)
Lam(ps, b)    == T("lam", "", 0, ps, <<b>>)
Lam1(x, b)    == Lam(<<x>>, b)
CallP(f, as)  == T("call", "", Len(as), <<>>, <<f>> \o as)
CallK(f, as, kws, kvs) == T("call", "", Len(as), kws, <<f>> \o as \o kvs)
Fn(f, as)     == CallP(Name(f), as)
Meth(o, m, as) == CallP(Attr(o, m), as)
BinOp(o, l, r) == T("binop", o, 0, <<>>, <<l, r>>)
UnOp(o, x)    == T("unop", o, 0, <<>>, <<x>>)
BoolOp(o, vs) == T("boolop", o, 0, <<>>, vs)
Cmp(o, l, r)  == T("cmp", "", 0, <<o>>, <<l, r>>)
IfExp(c, x, y) == T("ifexp", "", 0, <<>>, <<c, x, y>>)
Tup(es)       == T("tuple", "", 0, <<>>, es)
Lst(es)       == T("list", "", 0, <<>>, es)
Dct(kvs)      == T("dict", "", 0, <<>>, kvs)
Sub(v, i)     == T("sub", "", 0, <<>>, <<v, i>>)
Slice(l, h, st) == T("slice", "", 0, <<>>, <<l, h, st>>)
Comp(kind, x, elt, it, ifs) == T("comp", kind, 0, <<x>>, <<elt, it>> \o ifs)

Range(sq) == {sq[i] : i \in 1..Len(sq)}

(* The operators the library itself understands (never captured, never bound). *)
StreamOps == {"Select", "SelectMany", "Where"}
OperatorNames == StreamOps \cup {"First", "Count", "len", "Sum", "Min", "Max", "Aggregate",
                  "MetaData", "EventDataset", "ResultTTree", "ResultParquet",
                  "ResultAwkwardArray", "ResultPandasDF", "abs", "Zip", "Range"}

IsCallOf(t, f) == t.k = "call" /\ t.a[1].k = "name" /\ t.a[1].s = f
IsFn(t)        == t.k = "call" /\ t.a[1].k = "name"
IsMethOf(t, m) == t.k = "call" /\ t.a[1].k = "attr" /\ t.a[1].s = m
IsMeth(t)      == t.k = "call" /\ t.a[1].k = "attr"
CallArgs(t)    == SubSeq(t.a, 2, 1 + t.n)            \* positional arguments
CallKwVals(t)  == SubSeq(t.a, 2 + t.n, Len(t.a))     \* keyword values (names in t.p)

---------------------------------------------------------------------------
(* Sizes and census *)
RECURSIVE Size(_)
Size(t) == LET RECURSIVE Sum(_)
               Sum(i) == IF i > Len(t.a) THEN 0 ELSE Size(t.a[i]) + Sum(i + 1)
           IN 1 + Sum(1)

RECURSIVE CountKinds(_, _)
CountKinds(t, kinds) ==
    LET RECURSIVE Sum(_)
        Sum(i) == IF i > Len(t.a) THEN 0 ELSE CountKinds(t.a[i], kinds) + Sum(i + 1)
    IN (IF t.k \in kinds THEN 1 ELSE 0) + Sum(1)

RECURSIVE SubTerms(_)
SubTerms(t) == {t} \cup UNION {SubTerms(t.a[i]) : i \in 1..Len(t.a)}

RECURSIVE HasKind(_, _)
HasKind(t, kinds) == t.k \in kinds \/ \E i \in 1..Len(t.a) : HasKind(t.a[i], kinds)

(* The shape of a lambda's parameter list beyond plain parameters, carried in the lam term's s field:          *)
(* "" = plain parameters only; otherwise "po<i>ko<j>va<0|1>kw<0|1>" = i positional-only parameters, j           *)
(* keyword-only ones, a *args and a **kwargs parameter.  p lists ALL bound names in declaration order          *)
(* (positional-only, ordinary, *args, keyword-only, **kwargs); n counts the defaults of the positional          *)
(* parameters; a = <<body>> \o defaults \o one entry per keyword-only parameter (its default, or absent).       *)
LamSig(s) ==
    CASE s = "" -> [po |-> 0, ko |-> 0, va |-> FALSE, kw |-> FALSE]
      [] s = "po0ko0va0kw1" -> [po |-> 0, ko |-> 0, va |-> FALSE, kw |-> TRUE]
      [] s = "po0ko0va1kw0" -> [po |-> 0, ko |-> 0, va |-> TRUE, kw |-> FALSE]
      [] s = "po0ko0va1kw1" -> [po |-> 0, ko |-> 0, va |-> TRUE, kw |-> TRUE]
      [] s = "po0ko1va0kw0" -> [po |-> 0, ko |-> 1, va |-> FALSE, kw |-> FALSE]
      [] s = "po0ko1va0kw1" -> [po |-> 0, ko |-> 1, va |-> FALSE, kw |-> TRUE]
      [] s = "po0ko1va1kw0" -> [po |-> 0, ko |-> 1, va |-> TRUE, kw |-> FALSE]
      [] s = "po0ko1va1kw1" -> [po |-> 0, ko |-> 1, va |-> TRUE, kw |-> TRUE]
      [] s = "po0ko2va0kw0" -> [po |-> 0, ko |-> 2, va |-> FALSE, kw |-> FALSE]
      [] s = "po0ko2va0kw1" -> [po |-> 0, ko |-> 2, va |-> FALSE, kw |-> TRUE]
      [] s = "po0ko2va1kw0" -> [po |-> 0, ko |-> 2, va |-> TRUE, kw |-> FALSE]
      [] s = "po0ko2va1kw1" -> [po |-> 0, ko |-> 2, va |-> TRUE, kw |-> TRUE]
      [] s = "po1ko0va0kw0" -> [po |-> 1, ko |-> 0, va |-> FALSE, kw |-> FALSE]
      [] s = "po1ko0va0kw1" -> [po |-> 1, ko |-> 0, va |-> FALSE, kw |-> TRUE]
      [] s = "po1ko0va1kw0" -> [po |-> 1, ko |-> 0, va |-> TRUE, kw |-> FALSE]
      [] s = "po1ko0va1kw1" -> [po |-> 1, ko |-> 0, va |-> TRUE, kw |-> TRUE]
      [] s = "po1ko1va0kw0" -> [po |-> 1, ko |-> 1, va |-> FALSE, kw |-> FALSE]
      [] s = "po1ko1va0kw1" -> [po |-> 1, ko |-> 1, va |-> FALSE, kw |-> TRUE]
      [] s = "po1ko1va1kw0" -> [po |-> 1, ko |-> 1, va |-> TRUE, kw |-> FALSE]
      [] s = "po1ko1va1kw1" -> [po |-> 1, ko |-> 1, va |-> TRUE, kw |-> TRUE]
      [] s = "po1ko2va0kw0" -> [po |-> 1, ko |-> 2, va |-> FALSE, kw |-> FALSE]
      [] s = "po1ko2va0kw1" -> [po |-> 1, ko |-> 2, va |-> FALSE, kw |-> TRUE]
      [] s = "po1ko2va1kw0" -> [po |-> 1, ko |-> 2, va |-> TRUE, kw |-> FALSE]
      [] s = "po1ko2va1kw1" -> [po |-> 1, ko |-> 2, va |-> TRUE, kw |-> TRUE]
      [] s = "po2ko0va0kw0" -> [po |-> 2, ko |-> 0, va |-> FALSE, kw |-> FALSE]
      [] s = "po2ko0va0kw1" -> [po |-> 2, ko |-> 0, va |-> FALSE, kw |-> TRUE]
      [] s = "po2ko0va1kw0" -> [po |-> 2, ko |-> 0, va |-> TRUE, kw |-> FALSE]
      [] s = "po2ko0va1kw1" -> [po |-> 2, ko |-> 0, va |-> TRUE, kw |-> TRUE]
      [] s = "po2ko1va0kw0" -> [po |-> 2, ko |-> 1, va |-> FALSE, kw |-> FALSE]
      [] s = "po2ko1va0kw1" -> [po |-> 2, ko |-> 1, va |-> FALSE, kw |-> TRUE]
      [] s = "po2ko1va1kw0" -> [po |-> 2, ko |-> 1, va |-> TRUE, kw |-> FALSE]
      [] s = "po2ko1va1kw1" -> [po |-> 2, ko |-> 1, va |-> TRUE, kw |-> TRUE]
      [] s = "po2ko2va0kw0" -> [po |-> 2, ko |-> 2, va |-> FALSE, kw |-> FALSE]
      [] s = "po2ko2va0kw1" -> [po |-> 2, ko |-> 2, va |-> FALSE, kw |-> TRUE]
      [] s = "po2ko2va1kw0" -> [po |-> 2, ko |-> 2, va |-> TRUE, kw |-> FALSE]
      [] s = "po2ko2va1kw1" -> [po |-> 2, ko |-> 2, va |-> TRUE, kw |-> TRUE]
      [] OTHER -> [po |-> 0, ko |-> 0, va |-> FALSE, kw |-> FALSE]
NKwOnly(lam) == LamSig(lam.s).ko
(* number of parameters that can be bound by position *)
NPositional(lam) == Len(lam.p) - LamSig(lam.s).ko - (IF LamSig(lam.s).va THEN 1 ELSE 0) - (IF LamSig(lam.s).kw THEN 1 ELSE 0)
PlainLam(lam) == lam.s = ""
LamG(sg, nd, ps, b, defs, kwdefs) == T("lam", sg, nd, ps, <<b>> \o defs \o kwdefs)

---------------------------------------------------------------------------
(* Python scoping: lambda parameters and comprehension targets bind; lambda *)
(* defaults and the comprehension's iterable are evaluated outside.         *)
RECURSIVE FV(_)
FV(t) ==
    CASE t.k = "name" -> {t.s}
      [] t.k = "lam"  -> (FV(t.a[1]) \ Range(t.p))
                          \cup UNION {FV(t.a[i]) : i \in 2..Len(t.a)}
      [] t.k = "comp" -> FV(t.a[2]) \cup
                          ((FV(t.a[1]) \cup UNION {FV(t.a[i]) : i \in 3..Len(t.a)}) \ Range(t.p))
      [] OTHER        -> UNION {FV(t.a[i]) : i \in 1..Len(t.a)}

(* Free variables that are not library operator names *)
FVars(t) == FV(t) \ OperatorNames

RECURSIVE BoundNames(_)
BoundNames(t) ==
    (IF t.k \in {"lam", "comp"} THEN Range(t.p) ELSE {})
      \cup UNION {BoundNames(t.a[i]) : i \in 1..Len(t.a)}

RECURSIVE AllNames(_)
AllNames(t) == (IF t.k = "name" THEN {t.s} ELSE {}) \cup BoundNames(t)
                 \cup UNION {AllNames(t.a[i]) : i \in 1..Len(t.a)}

WellScoped(t, outer) == FVars(t) \subseteq outer

(* Every node kind is one the grammar of expressions knows, and arities are *)
(* right: what "syntactically valid" means at this level of abstraction.    *)
RECURSIVE WellFormed(_)
WellFormed(t) ==
    /\ CASE t.k \in {"name", "int", "bigint", "bool", "str", "none", "float", "const", "absent"}
                             -> Len(t.a) = 0
         [] t.k = "attr"     -> Len(t.a) = 1
         [] t.k = "call"     -> Len(t.a) = 1 + t.n + Len(t.p)
         [] t.k = "lam"      -> Len(t.a) = 1 + t.n + NKwOnly(t) /\ t.n <= NPositional(t)
         [] t.k = "binop"    -> Len(t.a) = 2
         [] t.k = "unop"     -> Len(t.a) = 1
         [] t.k = "boolop"   -> Len(t.a) >= 2
         [] t.k = "cmp"      -> Len(t.a) = 1 + Len(t.p) /\ Len(t.p) >= 1
         [] t.k = "ifexp"    -> Len(t.a) = 3
         [] t.k \in {"tuple", "list"} -> TRUE
         [] t.k = "dict"     -> Len(t.a) % 2 = 0
         [] t.k = "sub"      -> Len(t.a) = 2
         [] t.k = "slice"    -> Len(t.a) = 3
         [] t.k = "comp"     -> Len(t.a) >= 2 /\ Len(t.p) = 1
         [] OTHER            -> FALSE
    /\ \A i \in 1..Len(t.a) : WellFormed(t.a[i])
    /\ (t.k = "absent" => TRUE)

---------------------------------------------------------------------------
(* Substitution.  SubstNaive is what a binder-blind NodeTransformer does;   *)
(* Subst stops at binders that re-bind the name (no renaming: callers make  *)
(* sure the replacement's free names are not captured, see Captures).       *)
RECURSIVE Subst(_, _, _)
Subst(t, x, r) ==
    CASE t.k = "name" -> IF t.s = x THEN r ELSE t
      [] t.k = "lam"  ->
           [t EXCEPT !.a = [i \in 1..Len(t.a) |->
                 IF i = 1 /\ x \in Range(t.p) THEN t.a[1] ELSE Subst(t.a[i], x, r)]]
      [] t.k = "comp" ->
           [t EXCEPT !.a = [i \in 1..Len(t.a) |->
                 IF i # 2 /\ x \in Range(t.p) THEN t.a[i] ELSE Subst(t.a[i], x, r)]]
      [] OTHER        -> [t EXCEPT !.a = [i \in 1..Len(t.a) |-> Subst(t.a[i], x, r)]]

RECURSIVE SubstNaive(_, _, _)
SubstNaive(t, x, r) ==
    IF t.k = "name" THEN (IF t.s = x THEN r ELSE t)
    ELSE [t EXCEPT !.a = [i \in 1..Len(t.a) |-> SubstNaive(t.a[i], x, r)]]

(* Would substituting r for x in t capture a free name of r?               *)
RECURSIVE Captures(_, _, _)
Captures(t, x, fvr) ==
    CASE t.k = "name" -> FALSE
      [] t.k = "lam"  ->
           \/ (x \notin Range(t.p) /\ x \in FV(t.a[1]) /\ Range(t.p) \cap fvr # {})
           \/ (x \notin Range(t.p) /\ Captures(t.a[1], x, fvr))
           \/ \E i \in 2..Len(t.a) : Captures(t.a[i], x, fvr)
      [] t.k = "comp" ->
           \/ Captures(t.a[2], x, fvr)
           \/ (x \notin Range(t.p) /\
                 \E i \in (1..Len(t.a)) \ {2} :
                     (x \in FV(t.a[i]) /\ Range(t.p) \cap fvr # {}) \/ Captures(t.a[i], x, fvr))
      [] OTHER        -> \E i \in 1..Len(t.a) : Captures(t.a[i], x, fvr)

(* Rename a bound parameter (capture-avoiding given that nw is fresh).      *)
RenameParam(lam, old, nw) ==
    [lam EXCEPT !.p = [i \in 1..Len(lam.p) |-> IF lam.p[i] = old THEN nw ELSE lam.p[i]],
                !.a[1] = Subst(lam.a[1], old, Name(nw))]

(* Positions: sequences of child indices. *)
RECURSIVE At(_, _)
At(t, pos) == IF pos = <<>> THEN t ELSE At(t.a[Head(pos)], Tail(pos))

RECURSIVE ReplaceAt(_, _, _)
ReplaceAt(t, pos, r) ==
    IF pos = <<>> THEN r
    ELSE [t EXCEPT !.a[Head(pos)] = ReplaceAt(t.a[Head(pos)], Tail(pos), r)]

=============================================================================
