--------------------------- MODULE TraceCallStack ---------------------------
(* Trace validation for call_stack.argument_stack: each recorded step (action + the lookups observed *)
(* afterwards for every name) must be a step of CallStack with exactly those visible bindings.       *)
(* record: [tid, step, act, n, v, vis: [a |-> .., b |-> ..], depth]   verdict: [tid, step, ok, clause] *)
EXTENDS Integers, Sequences, FiniteSets, TLC, Json, IOUtils

Trace == ndJsonDeserialize(IOEnv.IN_FILE)
AppendOpt == [format |-> "TXT", charset |-> "UTF-8", openOptions |-> <<"WRITE", "CREATE", "APPEND">>]
Names == {"a", "b"}
Undef == 0
Default == 9
Empty == [n \in Names |-> Undef]
RECURSIVE Find(_, _, _)
Find(fs, i, n) == IF i = 0 THEN Default ELSE IF fs[i][n] # Undef THEN fs[i][n] ELSE Find(fs, i - 1, n)

VARIABLES l, frames
tvars == <<l, frames>>

After(r, fs) ==
    CASE r.act = "push" -> Append(fs, Empty)
      [] r.act \in {"pop", "raise"} -> IF Len(fs) > 1 THEN SubSeq(fs, 1, Len(fs) - 1) ELSE fs
      [] r.act = "define" -> [fs EXCEPT ![Len(fs)][r.n] = r.v]
      [] OTHER -> fs
Clause(r, fs) ==
    LET nf == After(r, fs) IN
    IF r.act \in {"pop", "raise"} /\ Len(fs) = 1 THEN "PopOfBase"
    ELSE IF r.depth # -1 /\ r.depth # Len(nf) THEN "Depth"
    ELSE IF \E n \in Names : r.vis[n] # Find(nf, Len(nf), n) THEN "Lookup"
    ELSE ""
Init == l = 1 /\ frames = <<Empty>>
Next == /\ l <= Len(Trace)
        /\ LET r == Trace[l]
               fs == IF r.step = 1 THEN <<Empty>> ELSE frames
               c == Clause(r, fs)
           IN /\ frames' = After(r, fs)
              /\ Serialize(ToJson([tid |-> r.tid, step |-> r.step, ok |-> c = "", clause |-> c]) \o "\n",
                           IOEnv.OUT_FILE, AppendOpt).exitValue = 0
        /\ l' = l + 1
Spec == Init /\ [][Next]_tvars
Accepted == TLCGet("stats").diameter - 1 = Len(Trace)
=============================================================================
