----------------------------- MODULE TraceSource -----------------------------
(* record: [id, lay, lines: Seq(Seq(Nat)), want: Seq(lambda term), obs: Seq([res, lam])]            *)
(* one obs per operator call of the chain, in order; res = "ok" | exception class | "not-reached"   *)
EXTENDS Source, Json, IOUtils
Trace == ndJsonDeserialize(IOEnv.IN_FILE)
AppendOpt == [format |-> "TXT", charset |-> "UTF-8",
              openOptions |-> <<"WRITE", "CREATE", "APPEND">>]
Verdict(id, v, clause, sup, call) == [id |-> id, v |-> v, clause |-> clause, supported |-> sup, call |-> call]
Judge(r) ==
    LET sup == Supported(r.lay, r.lines)
        n == Len(r.want)
        wrong == {i \in 1..n : r.obs[i].res = "ok" /\ r.obs[i].lam # r.want[i]}
        raised == {i \in 1..n : r.obs[i].res \notin {"ok", "not-reached"}}
    IN IF Len(r.obs) # n THEN Verdict(r.id, "REJECT", "Harness", sup, 0)
       ELSE IF wrong # {} THEN Verdict(r.id, "REJECT", "WrongLambda", sup, CHOOSE i \in wrong : TRUE)
       ELSE IF sup /\ raised # {} THEN Verdict(r.id, "REJECT", "SupportedNotRecovered", sup, CHOOSE i \in raised : TRUE)
       ELSE IF raised # {} THEN Verdict(r.id, "ACCEPT", "raised", sup, CHOOSE i \in raised : TRUE)
       ELSE Verdict(r.id, "ACCEPT", "", sup, 0)
VARIABLE l
Init == l = 1
Next == /\ l <= Len(Trace) /\ l' = l + 1
        /\ Serialize(ToJson(Judge(Trace[l])) \o "\n", IOEnv.OUT_FILE, AppendOpt).exitValue = 0
Spec == Init /\ [][Next]_l
Accepted == TLCGet("stats").diameter - 1 = Len(Trace)
=============================================================================
