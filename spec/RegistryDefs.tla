---------------------------- MODULE RegistryDefs ----------------------------
(* Pure definitions shared by the Registry state machine and by TraceRegistry: the registered names, the   *)
(* signature variants, the call shapes the user writes and what the backend must see for each.            *)
EXTENDS Terms

FnNames == {"fa", "fb"}
(* signature variants: 1 = (a, b = 22), 2 = (a, b = 42, c = 43) *)
Variants == {1, 2}
(* call shapes written by the user: 1 = f(11, b=32), 2 = f(11) *)
Shapes == {1, 2}

UserCall(nm, sh) == IF sh = 1 THEN CallK(Name(nm), <<IntC(11)>>, <<"b">>, <<IntC(32)>>)
                    ELSE CallP(Name(nm), <<IntC(11)>>)
(* the call the backend must see for a name registered with variant v *)
Normal(nm, v, sh) ==
    LET b == IF sh = 1 THEN IntC(32) ELSE IntC(IF v = 1 THEN 22 ELSE 42)
    IN IF v = 1 THEN CallP(Name(nm), <<IntC(11), b>>) ELSE CallP(Name(nm), <<IntC(11), b, IntC(43)>>)
Emit(nm, v, sh) == IF v = 0 THEN UserCall(nm, sh) ELSE Normal(nm, v, sh)
(* type of e.jets().Second() on a typed dataset *)
SecondType(c) == IF c THEN "Jet" ELSE "Any"

=============================================================================
