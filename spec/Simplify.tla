------------------------------ MODULE Simplify ------------------------------
(***************************************************************************)
(* The chained-call simplifier as a rewriting system (design-level model   *)
(* of func_adl/ast/function_simplifier.py).  One named rule per case of    *)
(* the implementation; the context closure lets a rule fire at any         *)
(* position.  State: the current term t and the original program orig      *)
(* (a derivation of Grammar, so programs are TLC behaviours too).          *)
(*                                                                         *)
(* Constant Naive selects what the pinned implementation did before the    *)
(* fix: commits: binder-blind substitution and no renaming when a lambda   *)
(* is moved under another binder.  With Naive = TRUE TLC returns the       *)
(* minimal capture counterexamples; with Naive = FALSE Preserve, Scoped    *)
(* and termination hold on every program of the bounded grammar.           *)
(***************************************************************************)
EXTENDS Grammar, Passes

CONSTANTS Naive

VARIABLES t, orig, phase     \* phase = "derive" (building the program) | "rewrite"
vars == <<t, orig, phase>>

---------------------------------------------------------------------------
(* fresh names: the implementation uses a global counter arg_N *)
FreshPool == <<"arg_0", "arg_1", "arg_2", "arg_3", "arg_4", "arg_5", "arg_6", "arg_7", "arg_8", "arg_9">>
Fresh(avoid) == FreshPool[CHOOSE i \in 1..Len(FreshPool) :
                              FreshPool[i] \notin avoid /\ \A j \in 1..(i - 1) : FreshPool[j] \in avoid]

(* Python's equality of constant dictionary keys: True == 1, False == 0 *)
KeyEq(k1, k2) == k1 = k2 \/ (k1.k \in {"int", "bool"} /\ k2.k \in {"int", "bool"} /\ k1.n = k2.n)

(* capture-avoiding substitution: a binder that would capture a free name of r is renamed first *)
RECURSIVE SubstCA(_, _, _)
SubstCA(u, x, r) ==
    CASE u.k = "name" -> IF u.s = x THEN r ELSE u
      [] u.k = "lam" ->
           IF x \in Range(u.p) THEN
               [u EXCEPT !.a = [i \in 1..Len(u.a) |-> IF i = 1 THEN u.a[1] ELSE SubstCA(u.a[i], x, r)]]
           ELSE IF x \in FV(u.a[1]) /\ Range(u.p) \cap FV(r) # {} THEN
               LET clash == CHOOSE p \in Range(u.p) \cap FV(r) : TRUE
                   nw == Fresh(AllNames(u) \cup AllNames(r) \cup {x})
               IN SubstCA(RenameParam(u, clash, nw), x, r)
           ELSE [u EXCEPT !.a = [i \in 1..Len(u.a) |-> SubstCA(u.a[i], x, r)]]
      [] OTHER -> [u EXCEPT !.a = [i \in 1..Len(u.a) |-> SubstCA(u.a[i], x, r)]]

Sub1(u, x, r) == IF Naive THEN SubstNaive(u, x, r) ELSE SubstCA(u, x, r)

IsLam1(u) == u.k = "lam" /\ Len(u.p) = 1 /\ u.n = 0
(* the lambda of a sequence operator: one element parameter, every further parameter defaulted *)
IsLamOp(u) == u.k = "lam" /\ Len(u.p) = 1 + u.n /\ \A i, j \in 1..Len(u.p) : i # j => u.p[i] # u.p[j]
IsOp(u, op) == IsCallOf(u, op) /\ u.n = 2 /\ u.p = <<>> /\ IsLamOp(u.a[3])
IsIdentity(lam) == IsLam1(lam) /\ lam.a[1] = Name(lam.p[1])
IsTrue(lam) == lam.k = "lam" /\ lam.a[1] = BoolC(TRUE)

(* rename the parameters of f away from the free names of g before g is moved under them *)
RECURSIVE AwayFrom(_, _, _)
AwayFrom(f, g, i) ==
    IF i > Len(f.p) THEN f
    ELSE IF f.p[i] \notin FV(g) THEN AwayFrom(f, g, i + 1)
    ELSE AwayFrom(RenameParam(f, f.p[i], Fresh(AllNames(f) \cup AllNames(g))), g, i + 1)
Away(f, g) == IF Naive THEN f ELSE AwayFrom(f, g, 1)
(* f with its body replaced (all parameters and their defaults stay) *)
(* (the pinned implementation rebuilt the lambda from its first parameter only: Naive) *)
WithBody(f, b) == IF Naive THEN Lam1(f.p[1], b) ELSE [f EXCEPT !.a[1] = b]

(* simultaneous binding of a called lambda's parameters: Python's rules, or no rule applies *)
CallBindable(c) ==
    LET lam == c.a[1]  np == Len(lam.p)  nd == lam.n  npos == c.n IN
    /\ PlainLam(lam)          \* positional-only / keyword-only / star parameters: the call stays a call
    /\ npos <= np
    /\ \A i \in 1..Len(c.p) : IndexOf(lam.p, c.p[i]) > npos
    /\ \A i, j \in 1..Len(c.p) : i # j => c.p[i] # c.p[j]
    /\ \A i \in (npos + 1)..np : IndexOf(c.p, lam.p[i]) # 0 \/ i > np - nd
    /\ \A i, j \in 1..np : i # j => lam.p[i] # lam.p[j]
BoundArg(c, i) ==
    LET lam == c.a[1]  np == Len(lam.p)  nd == lam.n IN
    IF i <= c.n THEN c.a[1 + i]
    ELSE IF IndexOf(c.p, lam.p[i]) # 0 THEN c.a[1 + c.n + IndexOf(c.p, lam.p[i])]
    ELSE lam.a[1 + (i - (np - nd))]
(* simultaneous substitution through fresh intermediate names (so that an argument mentioning *)
(* another parameter's name is not substituted again)                                         *)
RECURSIVE BetaAll(_, _, _)
BetaAll(body, ps, as) ==
    IF ps = <<>> THEN body
    ELSE BetaAll(Sub1(body, Head(ps), Head(as)), Tail(ps), Tail(as))
Beta(c) ==
    LET lam == c.a[1]
        np == Len(lam.p)
        args == [i \in 1..np |-> BoundArg(c, i)]
        avoid == AllNames(c)
        tmp == [i \in 1..np |-> "tmp_" \o lam.p[i]]
        body1 == IF Naive THEN lam.a[1]
                 ELSE BetaAll(lam.a[1], lam.p, [i \in 1..np |-> Name(tmp[i])])
    IN IF Naive THEN BetaAll(lam.a[1], lam.p, args) ELSE BetaAll(body1, tmp, args)

(* apply an operator lambda to an element term: the further parameters take their defaults *)
App(lam, arg) == IF lam.n = 0 THEN Sub1(lam.a[1], lam.p[1], arg)
                 ELSE Beta(T("call", "", 1, <<>>, <<lam, arg>>))

---------------------------------------------------------------------------
(* root rules: the set of results of applying one rule at the root of u *)
RootRw(u) ==
    (* operator-pair fusions *)
    (IF IsOp(u, "Select") /\ IsOp(u.a[2], "Select") THEN
        LET f == u.a[2].a[3]  g == u.a[3]  z == Fresh(AllNames(u)) IN
        {Fn("Select", <<u.a[2].a[2], Lam1(z, App(g, App(f, Name(z))))>>)} ELSE {}) \cup
    (IF IsOp(u, "Select") /\ IsOp(u.a[2], "SelectMany") THEN
        LET f == Away(u.a[2].a[3], u.a[3]) IN
        {Fn("SelectMany", <<u.a[2].a[2], WithBody(f, Fn("Select", <<f.a[1], u.a[3]>>))>>)} ELSE {}) \cup
    (IF IsOp(u, "SelectMany") /\ IsOp(u.a[2], "Select") THEN
        LET f == u.a[2].a[3]  g == u.a[3]  z == Fresh(AllNames(u)) IN
        {Fn("SelectMany", <<u.a[2].a[2], Lam1(z, App(g, App(f, Name(z))))>>)} ELSE {}) \cup
    (IF IsOp(u, "SelectMany") /\ IsOp(u.a[2], "SelectMany") THEN
        LET f == Away(u.a[2].a[3], u.a[3]) IN
        {Fn("SelectMany", <<u.a[2].a[2], WithBody(f, Fn("SelectMany", <<f.a[1], u.a[3]>>))>>)} ELSE {}) \cup
    (IF IsOp(u, "Where") /\ IsOp(u.a[2], "Where") THEN
        LET f == u.a[2].a[3]  g == u.a[3]  z == Fresh(AllNames(u)) IN
        {Fn("Where", <<u.a[2].a[2], Lam1(z, BoolOp("and", <<App(f, Name(z)), App(g, Name(z))>>))>>)} ELSE {}) \cup
    (IF IsOp(u, "Where") /\ IsOp(u.a[2], "Select") THEN
        LET f == u.a[2].a[3]  g == u.a[3]  z == Fresh(AllNames(u)) IN
        {Fn("Select", <<Fn("Where", <<u.a[2].a[2], Lam1(z, App(g, App(f, Name(z))))>>), f>>)} ELSE {}) \cup
    (IF IsOp(u, "Where") /\ IsOp(u.a[2], "SelectMany") THEN
        LET f == Away(u.a[2].a[3], u.a[3]) IN
        {Fn("SelectMany", <<u.a[2].a[2], WithBody(f, Fn("Where", <<f.a[1], u.a[3]>>))>>)} ELSE {}) \cup
    (* identities *)
    (IF IsOp(u, "Select") /\ IsIdentity(u.a[3]) THEN {u.a[2]} ELSE {}) \cup
    (IF IsOp(u, "Where") /\ IsTrue(u.a[3]) THEN {u.a[2]} ELSE {}) \cup
    (* called lambda *)
    (IF u.k = "call" /\ u.a[1].k = "lam" /\ CallBindable(u) THEN {Beta(u)} ELSE {}) \cup
    (* literal projections *)
    (IF u.k = "sub" /\ u.a[1].k \in {"tuple", "list"} /\ u.a[2].k = "int"
          /\ PyIndex(Len(u.a[1].a), u.a[2].n) # 0
     THEN {u.a[1].a[PyIndex(Len(u.a[1].a), u.a[2].n)]} ELSE {}) \cup
    (IF u.k = "sub" /\ u.a[1].k = "dict" /\ u.a[2].k \in {"str", "int"}
          /\ \E i \in 1..(Len(u.a[1].a) \div 2) : KeyEq(u.a[1].a[2 * i - 1], u.a[2])
     \* (a key written more than once: the LAST value counts, as in Python)
     THEN {u.a[1].a[2 * (CHOOSE i \in 1..(Len(u.a[1].a) \div 2) : KeyEq(u.a[1].a[2 * i - 1], u.a[2]) /\
                           \A j \in (i + 1)..(Len(u.a[1].a) \div 2) : ~KeyEq(u.a[1].a[2 * j - 1], u.a[2]))]} ELSE {}) \cup
    (IF u.k = "attr" /\ u.a[1].k = "dict"
          /\ \E i \in 1..(Len(u.a[1].a) \div 2) : u.a[1].a[2 * i - 1] = StrC(u.s)
     THEN {u.a[1].a[2 * (CHOOSE i \in 1..(Len(u.a[1].a) \div 2) : u.a[1].a[2 * i - 1] = StrC(u.s) /\
                           \A j \in (i + 1)..(Len(u.a[1].a) \div 2) : u.a[1].a[2 * j - 1] # StrC(u.s))]} ELSE {}) \cup
    (* First() push-through *)
    (IF u.k = "sub" /\ IsCallOf(u.a[1], "First") /\ u.a[1].n = 1 THEN
        LET z == Fresh(AllNames(u)) IN
        {Fn("First", <<Fn("Select", <<u.a[1].a[2], Lam1(z, Sub(Name(z), u.a[2]))>>)>>)} ELSE {}) \cup
    (IF u.k = "attr" /\ IsCallOf(u.a[1], "First") /\ u.a[1].n = 1 THEN
        LET z == Fresh(AllNames(u)) IN
        {Fn("First", <<Fn("Select", <<u.a[1].a[2], Lam1(z, Attr(Name(z), u.s))>>)>>)} ELSE {}) \cup
    (IF u.k = "call" /\ u.a[1].k = "attr" /\ IsCallOf(u.a[1].a[1], "First") /\ u.a[1].a[1].n = 1 THEN
        LET z == Fresh(AllNames(u)) IN
        {Fn("First", <<Fn("Select", <<u.a[1].a[1].a[2],
                                      Lam1(z, [u EXCEPT !.a[1] = Attr(Name(z), u.a[1].s)])>>)>>)} ELSE {})

(* context closure *)
(* The function position of a method call  obj.m(args)  is not an attribute access of its own (Sem has no   *)
(* first-class bound methods, and the implementation handles  First(seq).m(args)  as one node): the attribute *)
(* rules apply inside obj only.                                                                               *)
RECURSIVE Rw(_)
Rw(u) == RootRw(u) \cup
         UNION {{[u EXCEPT !.a[i] = c] :
                    c \in (IF u.k = "call" /\ i = 1 /\ u.a[1].k = "attr"
                           THEN {[u.a[1] EXCEPT !.a[1] = d] : d \in Rw(u.a[1].a[1])}
                           ELSE Rw(u.a[i]))} : i \in 1..Len(u.a)}

---------------------------------------------------------------------------
Init == t \in Roots /\ orig = t /\ phase = "derive"
Derive == /\ phase = "derive" /\ HasHole(t)
          /\ t' \in Fill(t) /\ orig' = t' /\ phase' = "derive"
Start == /\ phase = "derive" /\ ~HasHole(t)
         /\ phase' = "rewrite" /\ UNCHANGED <<t, orig>>
Rewrite == /\ phase = "rewrite"
           /\ t' \in Rw(t) /\ UNCHANGED <<orig, phase>>
Next == Derive \/ Start \/ Rewrite
Spec == Init /\ [][Next]_vars
FairSpec == Spec /\ WF_vars(Next)

(* C02 on the model: every reachable term means what the original means, wherever the original *)
(* evaluates without error; and no name escapes or is captured                                  *)
Preserve == phase = "rewrite" =>
              \A d \in 1..NData : LET a == EvalOn(orig, d) IN
                                  ~Usable(a) \/ EvalOn(t, d) = a
Scoped == phase = "rewrite" => FVars(t) \subseteq FVars(orig)
(* C18 on the model: rewriting never gets stuck on a malformed term, and stops *)
WellFormedAlways == phase = "rewrite" => WellFormed(t)
(* every behaviour that starts rewriting reaches a normal form and stays there (a derivation that *)
(* dead-ends before the program is complete never enters the rewrite phase)                     *)
Terminates == <>[](phase = "rewrite" => Rw(t) = {})
(* C14 on the model: normal forms of packaging chains keep no intermediate packaging *)
NormalFormShape == (phase = "rewrite" /\ Rw(t) = {}) => ShapeOK(orig, t)
(* every step is measured: the term gets no bigger than a bound derived from the original *)
Bounded == phase = "rewrite" => Size(t) <= 4 * Size(orig) * Size(orig) + 16

=============================================================================
