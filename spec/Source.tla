------------------------------- MODULE Source -------------------------------
(***************************************************************************)
(* C03: source recovery returns the lambda that was actually passed.       *)
(* A layout describes one statement containing a chain of 1..3 operator    *)
(* calls, each given a lambda (or a one-line def by name):                 *)
(*   calls: Seq of [op, p (parameter name), brk (where the call is broken  *)
(*          over physical lines), deco (string literal with brackets and   *)
(*          the word lambda / a comment containing them)]                  *)
(*   wrap  : enclosing construct (function body, if-block, method,         *)
(*           comprehension, conditional expression, nested def, decorator  *)
(*           argument)                                                     *)
(*   extra : an unrelated lambda in the same statement (none, before /     *)
(*           after the chain, with the same or another parameter name)     *)
(*   pre   : another statement before it on the same physical line         *)
(*   kind  : "lambda" | "def" (one-line function passed by name) | "var"   *)
(*           (lambda assigned to a variable first) | "wrapped" (passed      *)
(*           through a wrapper call keep(lambda ..))                        *)
(* Supported(layout, lines) formalises the documented layouts (DESIGN.md    *)
(* A.3); lines[i] = physical lines occupied by call site i (the extra       *)
(* lambda's call site is the last entry when there is one).                 *)
(***************************************************************************)
EXTENDS Terms

Ops == {"Select", "Where"}
Params == {"x", "y"}
Breaks == {"none", "dot", "paren", "body", "close", "all"}
Decos == {"none", "str", "cmt", "fstr", "cline"}     \* cline: a comment-only line between "(" and the lambda (when the call breaks there)     \* fstr: an f-string whose literal part is one unbalanced bracket
\* defline: the enclosing function is a one-line def with the statement on the SAME line (def q(ds): return ds.Select(lambda ..))
Wraps == {"fn", "if", "method", "comp", "cond", "nested", "with", "defline"}
Extras == {"none", "before_same", "before_other", "after_same"}

CallRec(op, p, brk, deco) == [op |-> op, p |-> p, brk |-> brk, deco |-> deco]

(* the (caller name, parameter names) the library can tell lambdas apart by *)
Keys(lay) == [i \in 1..Len(lay.calls) |-> <<lay.calls[i].op, lay.calls[i].p>>]
             \o (CASE lay.extra = "none" -> <<>>
                   [] lay.extra \in {"before_same", "after_same"} -> <<<<"keep", lay.calls[1].p>>>>
                   [] OTHER -> <<<<"keep", "P">>>>)
Distinguishable(lay) == LET ks == Keys(lay) IN \A i, j \in 1..Len(ks) : i # j => ks[i] # ks[j]
LinesDisjoint(lines) == \A i, j \in 1..Len(lines) : i # j => Range(lines[i]) \cap Range(lines[j]) = {}
(* only a lambda (or one-line def) written directly as the operator's argument is a supported layout; a lambda *)
(* that reaches the operator through a variable or a wrapper call must still be the right one, or raise     *)
Direct(lay) == lay.kind \in {"lambda", "def"}
(* a def keyword on the lambda's own line is not a documented layout (right lambda or raise is still required) *)
Supported(lay, lines) == Direct(lay) /\ lay.wrap # "defline" /\ (Distinguishable(lay) \/ LinesDisjoint(lines))

=============================================================================
