----------------------------- MODULE StreamsDefs -----------------------------
(* Pure definitions shared by the Streams state machine and by TraceStreams: the pool of lambdas the histories  *)
(* use, what each operator emits for them on a typed / untyped stream, and the item type of the result.       *)
EXTENDS Passes

Evar == Name("e")
LMet  == Lam1("e", Meth(Evar, "met", <<>>))
LCut  == Lam1("e", Cmp(">", Meth(Evar, "met", <<>>), IntC(1)))
LJets == Lam1("e", Meth(Evar, "jets", <<>>))
LNest == Lam1("e", Meth(Meth(Evar, "jets", <<>>), "Select", <<Lam1("j", Meth(Name("j"), "pt", <<>>))>>))
LNestTyped == Lam1("e", Meth(Meth(Evar, "jets", <<>>), "Select", <<Lam1("j", Meth(Name("j"), "pt", <<IntC(1)>>))>>))
LKw == Lam1("e", CallK(Attr(Evar, "met"), <<>>, <<"a">>, <<Meth(Evar, "met", <<>>)>>))
LKwTyped == Lam1("e", Meth(Evar, "met", <<Meth(Evar, "met", <<IntC(4)>>)>>))
LMetTyped == Lam1("e", Meth(Evar, "met", <<IntC(4)>>))
LCutTyped == Lam1("e", Cmp(">", Meth(Evar, "met", <<IntC(4)>>), IntC(1)))
Emitted(lam, inType) == IF inType # "Evt" THEN lam
                        ELSE CASE lam = LNest -> LNestTyped [] lam = LMet -> LMetTyped
                               [] lam = LCut -> LCutTyped [] lam = LKw -> LKwTyped [] OTHER -> lam

StreamType(op, lam, inType) ==
    CASE op = "Where" -> inType
      [] inType # "Evt" -> "Any"
      [] op = "Select" /\ lam \in {LMet, LKw} -> "int"
      [] op = "SelectMany" /\ lam = LJets -> "Jet"
      [] op = "Select" /\ lam = LNest -> "Iterable[int]"
      [] OTHER -> "Any"
=============================================================================
