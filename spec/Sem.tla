-------------------------------- MODULE Sem --------------------------------
(***************************************************************************)
(* Denotational semantics of query terms: ordinary LINQ / Python-list      *)
(* meaning over small explicit model datasets.  This is the oracle behind  *)
(* every "computes the same value" property (C01, C02, C05, C06, C17, C19).*)
(*                                                                         *)
(* value == [t, n, s, ks, e]                                               *)
(*   int(n) bool(n) str(s) none list(e) tup(e) dict(ks, e)                 *)
(*   obj(s = class, n = identity, ks = fields, e = field values)           *)
(*   err(s = reason)   unm(s = reason)  -- outside the modelled fragment   *)
(***************************************************************************)
EXTENDS Terms

V(t, n, s, ks, e) == [t |-> t, n |-> n, s |-> s, ks |-> ks, e |-> e]
VInt(i)    == V("int", i, "", <<>>, <<>>)
VBool(b)   == V("bool", IF b THEN 1 ELSE 0, "", <<>>, <<>>)
VStr(x)    == V("str", 0, x, <<>>, <<>>)
VNone      == V("none", 0, "", <<>>, <<>>)
VList(es)  == V("list", 0, "", <<>>, es)
VTup(es)   == V("tup", 0, "", <<>>, es)
VDict(ks, es) == V("dict", 0, "", ks, es)
VObj(cls, id, ks, es) == V("obj", id, cls, ks, es)
Err(why)   == V("err", 0, why, <<>>, <<>>)
Unm(why)   == V("unm", 0, why, <<>>, <<>>)

IsErr(v) == v.t = "err"
IsUnm(v) == v.t = "unm"
Bad(v)   == v.t \in {"err", "unm"}
IsNum(v) == v.t \in {"int", "bool"}

(* first bad element of a sequence of values, unm taking precedence *)
FirstBad(vs) ==
    IF \E i \in 1..Len(vs) : IsUnm(vs[i])
    THEN vs[CHOOSE i \in 1..Len(vs) : IsUnm(vs[i]) /\ \A j \in 1..(i - 1) : ~IsUnm(vs[j])]
    ELSE vs[CHOOSE i \in 1..Len(vs) : IsErr(vs[i]) /\ \A j \in 1..(i - 1) : ~IsErr(vs[j])]
AnyBad(vs) == \E i \in 1..Len(vs) : Bad(vs[i])

(* a value containing unm anywhere inside *)
RECURSIVE DeepUnm(_)
DeepUnm(v) == IsUnm(v) \/ \E i \in 1..Len(v.e) : DeepUnm(v.e[i])

Truthy(v) ==
    CASE v.t \in {"int", "bool"} -> v.n # 0
      [] v.t = "str"  -> v.s # ""
      [] v.t = "none" -> FALSE
      [] v.t \in {"list", "tup", "dict"} -> Len(v.e) > 0
      [] OTHER -> TRUE

IndexOf(sq, x) == IF \E i \in 1..Len(sq) : sq[i] = x
                  THEN CHOOSE i \in 1..Len(sq) : sq[i] = x /\ \A j \in 1..(i - 1) : sq[j] # x
                  ELSE 0

Big == 20000
Huge == 500000000
Abs(i) == IF i < 0 THEN -i ELSE i

---------------------------------------------------------------------------
(* The model universe (DESIGN.md A.1).                                      *)
(* Method signatures: sequence of [name, hasdef, def] per (class, method);  *)
(* a field doubles as a zero-argument method.                               *)
P(nm, hd, d) == [name |-> nm, hasdef |-> hd, def |-> d]
NoSig == <<>>
MethodSig(cls, m) ==
    CASE cls = "Jet" /\ m = "pt"   -> <<P("a", TRUE, 1), P("b", TRUE, 2), P("c", TRUE, 3)>>
      [] cls = "Jet" /\ m = "eta"  -> <<P("a", FALSE, 0), P("b", TRUE, 5)>>
      [] cls = "Trk" /\ m = "pt"   -> <<P("scale", TRUE, 1)>>
      [] cls = "Evt" /\ m = "met"  -> <<P("a", TRUE, 4), P("b", TRUE, 6)>>
      [] OTHER -> NoSig
HasSig(cls, m) == MethodSig(cls, m) # NoSig

FuncSig(f) ==
    CASE f = "myfn"  -> <<P("x", FALSE, 0), P("y", TRUE, 2)>>
      [] f = "fn3"   -> <<P("x", FALSE, 0), P("y", TRUE, 2), P("z", TRUE, 9)>>
      [] OTHER -> NoSig
FuncCode(f) == CASE f = "myfn" -> 3 [] f = "fn3" -> 5 [] OTHER -> 1

Primes == <<7, 11, 13, 17, 19, 23>>
KwCode(nm) == CASE nm = "a" -> 1 [] nm = "b" -> 2 [] nm = "c" -> 3 [] nm = "x" -> 4
                [] nm = "y" -> 5 [] nm = "z" -> 6 [] nm = "scale" -> 7 [] OTHER -> 0

(* Python's Signature.bind + apply_defaults: result is <<ok, seq of values>> *)
Bind(sig, pos, kwn, kwv) ==
    LET np == Len(pos)
        known == {sig[i].name : i \in 1..Len(sig)}
        ok == /\ np <= Len(sig)
              /\ \A i \in 1..Len(kwn) : kwn[i] \in known
              /\ \A i, j \in 1..Len(kwn) : i # j => kwn[i] # kwn[j]
              /\ \A i \in 1..Len(sig) :
                    IF i <= np THEN IndexOf(kwn, sig[i].name) = 0
                    ELSE IndexOf(kwn, sig[i].name) # 0 \/ sig[i].hasdef
    IN IF ~ok THEN <<FALSE, <<>>>>
       ELSE <<TRUE, [i \in 1..Len(sig) |->
                 IF i <= np THEN pos[i]
                 ELSE IF IndexOf(kwn, sig[i].name) # 0 THEN kwv[IndexOf(kwn, sig[i].name)]
                 ELSE VInt(sig[i].def)]>>

(* Injective-enough mixing of a base value and an argument vector.          *)
RECURSIVE MixSum(_, _)
MixSum(vs, i) == IF i > Len(vs) THEN 0
                 ELSE Primes[((i - 1) % Len(Primes)) + 1] * (vs[i].n + i) + MixSum(vs, i + 1)
Mix(base, vs) ==
    IF \E i \in 1..Len(vs) : ~IsNum(vs[i]) THEN Unm("mix-nonint")
    ELSE IF Abs(base) > Big \/ \E i \in 1..Len(vs) : Abs(vs[i].n) > Big THEN Unm("mix-range")
    ELSE VInt(base + MixSum(vs, 1))

---------------------------------------------------------------------------
(* Integer arithmetic with Python meaning (floor division), guarded so that *)
(* TLC's 32-bit integers never overflow.                                    *)
FloorDiv(a, b) == IF b > 0 THEN a \div b ELSE (-a) \div (-b)
PyMod(a, b)    == a - b * FloorDiv(a, b)
Arith(op, l, r) ==
    IF ~(IsNum(l) /\ IsNum(r)) THEN
        (IF op = "+" /\ l.t = r.t /\ l.t \in {"list", "tup"}
         THEN V(l.t, 0, "", <<>>, l.e \o r.e)
         ELSE IF l.t \in {"str", "list", "tup", "dict", "none", "obj"} \/
                 r.t \in {"str", "list", "tup", "dict", "none", "obj"}
              THEN (IF op \in {"+", "*", "%"} /\ (l.t = "str" \/ r.t = "str")
                    THEN Unm("str-arith") ELSE Err("TypeError"))
              ELSE Unm("arith"))
    ELSE IF Abs(l.n) > Huge \/ Abs(r.n) > Huge THEN Unm("range")
    ELSE CASE op = "+" -> VInt(l.n + r.n)
           [] op = "-" -> VInt(l.n - r.n)
           [] op = "*" -> IF Abs(l.n) > Big \/ Abs(r.n) > Big THEN Unm("range")
                          ELSE VInt(l.n * r.n)
           [] op = "//" -> IF r.n = 0 THEN Err("ZeroDivisionError") ELSE VInt(FloorDiv(l.n, r.n))
           [] op = "%" -> IF r.n = 0 THEN Err("ZeroDivisionError") ELSE VInt(PyMod(l.n, r.n))
           [] OTHER -> Unm("binop " \o op)

(* == on model values is structural, with True == 1 as in Python *)
RECURSIVE PyEq(_, _)
PyEq(l, r) ==
    IF IsNum(l) /\ IsNum(r) THEN l.n = r.n
    ELSE IF l.t # r.t THEN FALSE
    ELSE IF l.t \in {"list", "tup"} THEN
            Len(l.e) = Len(r.e) /\ \A i \in 1..Len(l.e) : PyEq(l.e[i], r.e[i])
    ELSE l = r

Compare1(op, l, r) ==
    CASE op = "==" -> VBool(PyEq(l, r))
      [] op = "!=" -> VBool(~PyEq(l, r))
      [] op \in {"<", "<=", ">", ">="} ->
           IF IsNum(l) /\ IsNum(r) THEN
               VBool(CASE op = "<" -> l.n < r.n [] op = "<=" -> l.n <= r.n
                       [] op = ">" -> l.n > r.n [] OTHER -> l.n >= r.n)
           ELSE IF l.t = r.t /\ l.t \in {"str", "list", "tup"} THEN Unm("order")
           ELSE Err("TypeError")
      [] OTHER -> Unm("cmp " \o op)

(* Python index normalisation: 1-based position or 0 when out of range *)
PyIndex(len, i) == IF i >= 0 THEN (IF i < len THEN i + 1 ELSE 0)
                   ELSE (IF -i <= len THEN len + i + 1 ELSE 0)
Clamp(len, i) == IF i < 0 THEN (IF len + i < 0 THEN 0 ELSE len + i)
                 ELSE (IF i > len THEN len ELSE i)

(* True and 1 (False and 0) are the same dictionary key in Python *)
DictKeyOf(kv) == CASE kv.t = "str" -> kv.s
                   [] kv.t \in {"int", "bool"} -> "#" \o ToString(kv.n)
                   [] OTHER -> "?"

---------------------------------------------------------------------------
RECURSIVE Eval(_, _)

(* apply a lambda term to positional values (defaults / keywords: CallLam) *)
Apply(lam, vals, env) ==
    IF lam.k # "lam" \/ ~PlainLam(lam) THEN Unm("apply-nonlambda")
    ELSE IF Len(lam.p) # Len(vals) THEN Err("TypeError-arity")
    ELSE Eval(lam.a[1], [x \in Range(lam.p) |->
                            vals[CHOOSE i \in 1..Len(lam.p) : lam.p[i] = x /\
                                   \A j \in (i + 1)..Len(lam.p) : lam.p[j] # x]] @@ env)

(* the lambda of Select / Where / SelectMany: one element parameter, any further parameters carry defaults *)
(* (lambda e, k=2: ...), which Python evaluates where the lambda is written                               *)
ApplyOp(lam, v, env) ==
    IF lam.n = 0 THEN Apply(lam, <<v>>, env)
    ELSE LET dvs == [i \in 1..lam.n |-> Eval(lam.a[1 + i], env)] IN
         IF AnyBad(dvs) THEN FirstBad(dvs) ELSE Apply(lam, <<v>> \o dvs, env)

RECURSIVE Fold(_, _, _, _, _)
Fold(lam, acc, es, i, env) ==
    IF i > Len(es) THEN acc
    ELSE IF Bad(acc) THEN acc
    ELSE Fold(lam, Apply(lam, <<acc, es[i]>>, env), es, i + 1, env)

RECURSIVE Concat(_, _)
Concat(vs, i) == IF i > Len(vs) THEN <<>> ELSE vs[i].e \o Concat(vs, i + 1)

RECURSIVE SumInts(_, _)
SumInts(vs, i) == IF i > Len(vs) THEN 0 ELSE vs[i].n + SumInts(vs, i + 1)
MaxInts(vs) == CHOOSE m \in {vs[i].n : i \in 1..Len(vs)} \cup {0} :
                  \A i \in 1..Len(vs) : vs[i].n <= m /\ m >= 0
MinInts(vs) == CHOOSE m \in {vs[i].n : i \in 1..Len(vs)} \cup {0} :
                  \A i \in 1..Len(vs) : vs[i].n >= m /\ m <= 0

Filter(es, keep) ==
    LET RECURSIVE F(_)
        F(i) == IF i > Len(es) THEN <<>>
                ELSE (IF keep[i] THEN <<es[i]>> ELSE <<>>) \o F(i + 1)
    IN F(1)

(* A sequence operator applied to an evaluated source and the other args.   *)
SeqOp(op, srcv, args, kwn, kwv, env) ==
    IF Bad(srcv) THEN srcv
    ELSE IF kwn # <<>> THEN Unm("operator-keywords")
    ELSE IF op \in {"Select", "Where", "SelectMany"} THEN
        IF Len(args) # 1 THEN Unm("operator-arity")
        ELSE IF args[1].k # "lam" \/ Len(args[1].p) # 1 + args[1].n \/ ~PlainLam(args[1]) THEN Unm("operator-nonlambda")
        ELSE IF srcv.t # "list" THEN Err("TypeError-notseq")
        ELSE LET rs == [i \in 1..Len(srcv.e) |-> ApplyOp(args[1], srcv.e[i], env)] IN
             IF AnyBad(rs) THEN FirstBad(rs)
             ELSE CASE op = "Select" -> VList(rs)
                    [] op = "Where"  -> VList(Filter(srcv.e, [i \in 1..Len(rs) |-> Truthy(rs[i])]))
                    [] OTHER -> IF \E i \in 1..Len(rs) : rs[i].t # "list"
                                THEN Err("TypeError-notseq") ELSE VList(Concat(rs, 1))
    ELSE IF op = "First" THEN
        IF Len(args) # 0 THEN Unm("operator-arity")
        ELSE IF srcv.t # "list" THEN Err("TypeError-notseq")
        ELSE IF Len(srcv.e) = 0 THEN Err("IndexError-First") ELSE srcv.e[1]
    ELSE IF op \in {"Count", "len"} THEN
        IF Len(args) # 0 THEN Unm("operator-arity")
        ELSE IF srcv.t \in {"list", "tup", "dict"} THEN VInt(Len(srcv.e)) ELSE Err("TypeError-len")
    ELSE IF op \in {"Sum", "Max", "Min"} THEN
        IF Len(args) # 0 THEN Unm("operator-arity")
        ELSE IF srcv.t # "list" THEN Err("TypeError-notseq")
        ELSE IF \E i \in 1..Len(srcv.e) : ~IsNum(srcv.e[i]) THEN Err("TypeError-sum")
        ELSE IF \E i \in 1..Len(srcv.e) : Abs(srcv.e[i].n) > Big THEN Unm("range")
        ELSE CASE op = "Sum" -> VInt(SumInts(srcv.e, 1))
               [] op = "Max" -> VInt(MaxInts(srcv.e))
               [] OTHER -> VInt(MinInts(srcv.e))
    ELSE IF op = "Aggregate" THEN
        IF Len(args) # 2 THEN Unm("operator-arity")
        ELSE IF args[2].k # "lam" \/ Len(args[2].p) # 2 \/ args[2].n # 0 \/ ~PlainLam(args[2]) THEN Unm("operator-nonlambda")
        ELSE IF srcv.t # "list" THEN Err("TypeError-notseq")
        ELSE LET init == Eval(args[1], env) IN Fold(args[2], init, srcv.e, 1, env)
    ELSE IF op = "MetaData" THEN srcv
    ELSE IF op \in {"ResultTTree", "ResultParquet", "ResultAwkwardArray", "ResultPandasDF"} THEN
        LET avs == [i \in 1..Len(args) |-> Eval(args[i], env)] IN
        IF AnyBad(avs) THEN FirstBad(avs)
        ELSE VTup(<<VStr(op), srcv>> \o avs)
    ELSE Unm("operator " \o op)

SeqOps == {"Select", "Where", "SelectMany", "First", "Count", "len", "Sum", "Max", "Min",
           "Aggregate", "MetaData", "ResultTTree", "ResultParquet", "ResultAwkwardArray",
           "ResultPandasDF"}
(* operator names that are also meaningful in method form (o.Select(..))   *)
MethOps == SeqOps \ {"len", "MetaData"}

EvalSub(v, ix, env) ==
    LET cv == Eval(v, env) IN
    IF Bad(cv) THEN cv
    ELSE IF ix.k = "slice" THEN
        LET lo == IF ix.a[1].k = "absent" THEN VNone ELSE Eval(ix.a[1], env)
            hi == IF ix.a[2].k = "absent" THEN VNone ELSE Eval(ix.a[2], env)
            st == IF ix.a[3].k = "absent" THEN VNone ELSE Eval(ix.a[3], env)
        IN IF AnyBad(<<lo, hi, st>>) THEN FirstBad(<<lo, hi, st>>)
           ELSE IF cv.t \notin {"list", "tup"} THEN Err("TypeError-slice")
           ELSE IF ~(st.t = "none" \/ (st.t = "int" /\ st.n = 1)) THEN Unm("slice-step")
           ELSE IF ~(lo.t \in {"none", "int"} /\ hi.t \in {"none", "int"}) THEN Err("TypeError-slice")
           ELSE LET n == Len(cv.e)
                    l == IF lo.t = "none" THEN 0 ELSE Clamp(n, lo.n)
                    h == IF hi.t = "none" THEN n ELSE Clamp(n, hi.n)
                IN V(cv.t, 0, "", <<>>, IF h > l THEN SubSeq(cv.e, l + 1, h) ELSE <<>>)
    ELSE LET iv == Eval(ix, env) IN
        IF Bad(iv) THEN iv
        ELSE IF cv.t \in {"list", "tup"} THEN
            IF ~IsNum(iv) THEN Err("TypeError-index")
            ELSE IF PyIndex(Len(cv.e), iv.n) = 0 THEN Err("IndexError")
            ELSE cv.e[PyIndex(Len(cv.e), iv.n)]
        ELSE IF cv.t = "dict" THEN
            IF iv.t \notin {"str", "int", "bool"} THEN Unm("dict-key")
            ELSE IF IndexOf(cv.ks, DictKeyOf(iv)) = 0 THEN Err("KeyError")
            ELSE cv.e[IndexOf(cv.ks, DictKeyOf(iv))]
        ELSE IF cv.t = "obj" THEN Err("TypeError-subscript")
        ELSE Err("TypeError-subscript")

EvalAttr(t, env) ==
    LET cv == Eval(t.a[1], env) IN
    IF Bad(cv) THEN cv
    ELSE IF cv.t \in {"obj", "dict"} THEN
        IF IndexOf(cv.ks, t.s) = 0 THEN Err("AttributeError") ELSE cv.e[IndexOf(cv.ks, t.s)]
    ELSE Err("AttributeError")

EvalMethod(t, env) ==     \* t = call whose func is attr
    LET m == t.a[1].s
        objt == t.a[1].a[1]
        args == CallArgs(t)
        kwv  == CallKwVals(t)
    IN IF m \in MethOps /\ ~(m \in {"Count", "First", "Sum", "Max", "Min"} /\ FALSE) THEN
           SeqOp(m, Eval(objt, env), args, t.p, kwv, env)
       ELSE LET ov == Eval(objt, env) IN
           IF Bad(ov) THEN ov
           ELSE IF ov.t # "obj" THEN Err("AttributeError")      \* ints, tuples, ... have none of the model's methods
           ELSE IF IndexOf(ov.ks, m) = 0 THEN Err("AttributeError")
           ELSE LET base == ov.e[IndexOf(ov.ks, m)]
                    avs == [i \in 1..Len(args) |-> Eval(args[i], env)]
                    kvs == [i \in 1..Len(kwv) |-> Eval(kwv[i], env)]
                IN IF AnyBad(avs \o kvs) THEN FirstBad(avs \o kvs)
                   ELSE IF HasSig(ov.s, m) THEN
                       LET b == Bind(MethodSig(ov.s, m), avs, t.p, kvs) IN
                       IF ~b[1] THEN Err("TypeError-bind")
                       ELSE IF base.t # "int" THEN Unm("method-base") ELSE Mix(base.n, b[2])
                   ELSE IF Len(args) = 0 /\ Len(kwv) = 0 THEN base
                   ELSE IF base.t # "int" THEN Unm("method-base")
                   ELSE IF \E i \in 1..Len(t.p) : KwCode(t.p[i]) = 0 THEN Unm("kw-name")
                   ELSE Mix(base.n, avs \o [i \in 1..Len(kvs) |->
                                   IF IsNum(kvs[i]) THEN VInt(kvs[i].n * 31 + KwCode(t.p[i]))
                                   ELSE kvs[i]])

(* A called lambda whose parameter list has positional-only / keyword-only / star-args / double-star-kwargs parts: Python's *)
(* binding in full.  A double-star parameter that actually receives something is outside the modelled values.              *)
EvalCalledLambdaG(t, env) ==
    LET lam == t.a[1]
        sg == LamSig(lam.s)
        args == CallArgs(t)
        kwv  == CallKwVals(t)
        avs == [i \in 1..Len(args) |-> Eval(args[i], env)]
        kvs == [i \in 1..Len(kwv) |-> Eval(kwv[i], env)]
        npos == NPositional(lam)                       \* positional-only + ordinary
        nd == lam.n
        vaIx == IF sg.va THEN npos + 1 ELSE 0          \* index of *args in lam.p
        ko1 == npos + (IF sg.va THEN 1 ELSE 0)         \* keyword-only parameters are lam.p[ko1 + 1 .. ko1 + sg.ko]
        dvs == [i \in 1..nd |-> Eval(lam.a[1 + i], env)]
        kdt == [j \in 1..sg.ko |-> lam.a[1 + nd + j]]  \* default terms of keyword-only parameters (or absent)
        kdv == [j \in 1..sg.ko |-> IF kdt[j].k = "absent" THEN VNone ELSE Eval(kdt[j], env)]
        nbound == IF Len(avs) < npos THEN Len(avs) ELSE npos
        (* a keyword may name an ordinary parameter not bound by position, or a keyword-only one *)
        KwTarget(nm) == IF \E i \in (sg.po + 1)..npos : lam.p[i] = nm THEN CHOOSE i \in (sg.po + 1)..npos : lam.p[i] = nm
                        ELSE IF \E j \in 1..sg.ko : lam.p[ko1 + j] = nm THEN ko1 + (CHOOSE j \in 1..sg.ko : lam.p[ko1 + j] = nm)
                        ELSE 0
        ok == /\ (Len(avs) <= npos \/ sg.va)
              /\ \A i \in 1..Len(t.p) : KwTarget(t.p[i]) # 0 /\ KwTarget(t.p[i]) > nbound
              /\ \A i, j \in 1..Len(t.p) : i # j => t.p[i] # t.p[j]
              /\ \A i \in (nbound + 1)..npos : IndexOf(t.p, lam.p[i]) # 0 \/ i > npos - nd
              /\ \A j \in 1..sg.ko : IndexOf(t.p, lam.p[ko1 + j]) # 0 \/ kdt[j].k # "absent"
        bound == [i \in 1..Len(lam.p) |->
                    IF i <= nbound THEN avs[i]
                    ELSE IF i <= npos THEN (IF IndexOf(t.p, lam.p[i]) # 0 THEN kvs[IndexOf(t.p, lam.p[i])] ELSE dvs[i - (npos - nd)])
                    ELSE IF i = vaIx THEN VTup(SubSeq(avs, nbound + 1, Len(avs)))
                    ELSE IF i <= ko1 + sg.ko THEN (IF IndexOf(t.p, lam.p[i]) # 0 THEN kvs[IndexOf(t.p, lam.p[i])] ELSE kdv[i - ko1])
                    ELSE VDict(<<>>, <<>>)]
    IN IF AnyBad(avs \o kvs \o dvs \o kdv) THEN FirstBad(avs \o kvs \o dvs \o kdv)
       ELSE IF \E i, j \in 1..Len(lam.p) : i # j /\ lam.p[i] = lam.p[j] THEN Err("SyntaxError-dup")
       ELSE IF sg.kw /\ \E i \in 1..Len(t.p) : KwTarget(t.p[i]) = 0 THEN Unm("kwargs")
       ELSE IF ~ok THEN Err("TypeError-bind")
       ELSE Eval(lam.a[1], [x \in Range(lam.p) |-> bound[IndexOf(lam.p, x)]] @@ env)

EvalCalledLambda(t, env) ==     \* t = call whose func is a lam term
    IF ~PlainLam(t.a[1]) THEN EvalCalledLambdaG(t, env) ELSE
    LET lam == t.a[1]
        args == CallArgs(t)
        kwv  == CallKwVals(t)
        avs == [i \in 1..Len(args) |-> Eval(args[i], env)]
        kvs == [i \in 1..Len(kwv) |-> Eval(kwv[i], env)]
        np == Len(lam.p)
        nd == lam.n
        dvs == [i \in 1..nd |-> Eval(lam.a[1 + i], env)]
    IN IF AnyBad(avs \o kvs \o dvs) THEN FirstBad(avs \o kvs \o dvs)
       ELSE IF \E i, j \in 1..np : i # j /\ lam.p[i] = lam.p[j] THEN Err("SyntaxError-dup")
       ELSE LET ok == /\ Len(avs) <= np
                      /\ \A i \in 1..Len(t.p) : IndexOf(lam.p, t.p[i]) > Len(avs)
                      /\ \A i, j \in 1..Len(t.p) : i # j => t.p[i] # t.p[j]
                      /\ \A i \in (Len(avs) + 1)..np :
                             IndexOf(t.p, lam.p[i]) # 0 \/ i > np - nd
                bound == [i \in 1..np |->
                             IF i <= Len(avs) THEN avs[i]
                             ELSE IF IndexOf(t.p, lam.p[i]) # 0 THEN kvs[IndexOf(t.p, lam.p[i])]
                             ELSE dvs[i - (np - nd)]]
            IN IF ~ok THEN Err("TypeError-bind")
               ELSE Eval(lam.a[1], [x \in Range(lam.p) |-> bound[IndexOf(lam.p, x)]] @@ env)

(* Captured one-line helper functions (C05): a call h(args) means Python calling the helper, *)
(* i.e. the called lambda (lambda params: body)(args).  The table is rendered to real `def`s  *)
(* and lambdas by the harness (harness/props_helpers.py HELPER_SOURCE must match).            *)
LamD(ps, nd, body, defs) == T("lam", "", nd, ps, <<body>> \o defs)
HelperNames == {"h_id", "h_inc", "h_sub", "h_lam", "h_nest", "h_nest2", "h_two", "h_cap", "h_kw", "h_d3", "h_deep", "h_rec", "h_comp", "h_comp2", "h_la", "h_lb", "h_cd", "h_th", "h_re1", "h_re2",
                "h_po", "h_po2", "h_ko", "h_kod", "h_kwi", "h_gl", "h_l1", "h_l2", "h_pg"}
HelperLam(f) ==
    CASE f = "h_id"   -> Lam(<<"a">>, Name("a"))
      [] f = "h_inc"  -> Lam(<<"a">>, BinOp("+", Name("a"), IntC(1)))
      [] f = "h_sub"  -> LamD(<<"a", "b">>, 1, BinOp("-", Name("a"), Name("b")), <<IntC(5)>>)
      [] f = "h_lam"  -> Lam(<<"a">>, BinOp("*", Name("a"), IntC(2)))
      [] f = "h_nest" -> Lam(<<"a">>, Fn("Count", <<Fn("Select", <<Attr(Name("a"), "trks"),
                                                       Lam(<<"a">>, Attr(Name("a"), "pt"))>>)>>))
      [] f = "h_nest2" -> Lam(<<"a", "b">>,
                              BinOp("+", Fn("Sum", <<Fn("Select", <<Attr(Name("a"), "trks"),
                                                        Lam(<<"b">>, Attr(Name("b"), "pt"))>>)>>), Name("b")))
      [] f = "h_two"  -> Lam(<<"j">>, Fn("h_inc", <<Attr(Name("j"), "pt")>>))
      [] f = "h_cap"  -> Lam(<<"a">>, Fn("Sum", <<Fn("Select", <<Attr(Name("a"), "trks"),
                                                     Lam(<<"t">>, BinOp("+", Attr(Name("t"), "pt"),
                                                                         Attr(Name("a"), "pt")))>>)>>))
      \* a lambda nested two deep whose innermost parameter t is a likely caller-side name; uses the outer parameter
      [] f = "h_deep" -> Lam(<<"c">>, Fn("Sum", <<Fn("SelectMany", <<Attr(Name("c"), "jets"),
                                 Lam(<<"r">>, Fn("Select", <<Attr(Name("r"), "trks"),
                                     Lam(<<"t">>, BinOp("+", Attr(Name("t"), "pt"), Attr(Name("c"), "met")))>>))>>)>>))
      \* uses its parameter twice: the argument expression ends up at two places of the query
      [] f = "h_rec"  -> Lam(<<"v">>, BinOp("+", Attr(Name("v"), "a"), Attr(Name("v"), "b")))
      \* a comprehension whose target re-uses the parameter name
      [] f = "h_comp" -> Lam(<<"a">>, Fn("Sum", <<Comp("list", "a", Attr(Name("a"), "pt"), Attr(Name("a"), "trks"), <<>>)>>))
      \* a comprehension target (a) that a caller-side argument name may collide with; uses the parameter inside
      [] f = "h_comp2" -> Lam(<<"c">>, Fn("Sum", <<Comp("list", "a", BinOp("+", Attr(Name("a"), "pt"), Attr(Name("c"), "pt")),
                                                       Attr(Name("c"), "trks"), <<>>)>>))
      \* two lambda helpers written on ONE source line with the same parameter name: the library cannot tell them
      \* apart and must leave them as calls by name (never inline the other one)
      \* the body calls a lambda that has a defaulted parameter left to its default / a parameter-less lambda
      [] f = "h_cd"   -> Lam(<<"a">>, CallP(LamD(<<"x", "s">>, 1, BinOp("*", Name("x"), Name("s")), <<IntC(2)>>), <<Name("a")>>))
      [] f = "h_th"   -> Lam(<<"a">>, BinOp("+", CallP(Lam(<<>>, IntC(3)), <<>>), Name("a")))
      \* two DIFFERENT functions that share file, name and qualified name (defined in the branches of one factory)
      [] f = "h_re1"  -> Lam(<<"a">>, BinOp("*", Name("a"), IntC(2)))
      [] f = "h_re2"  -> Lam(<<"a">>, BinOp("+", Name("a"), IntC(100)))
      \* helpers whose parameter lists have positional-only / keyword-only parts (def h(a, b, /), def h(a, *, b=4))
      [] f = "h_po"   -> LamG("po2ko0va0kw0", 0, <<"a", "b">>, BinOp("-", Name("a"), Name("b")), <<>>, <<>>)
      [] f = "h_po2"  -> LamG("po1ko0va0kw0", 0, <<"a", "b">>, BinOp("+", BinOp("*", Name("a"), IntC(10)), Name("b")), <<>>, <<>>)
      [] f = "h_ko"   -> LamG("po0ko1va0kw0", 0, <<"a", "b">>, BinOp("+", BinOp("*", Name("a"), IntC(10)), Name("b")), <<>>, <<Absent>>)
      [] f = "h_kod"  -> LamG("po0ko1va0kw0", 0, <<"a", "b">>, BinOp("+", BinOp("*", Name("a"), IntC(10)), Name("b")), <<>>, <<IntC(4)>>)
      \* the body calls a lambda BY KEYWORD; the lambda's parameters are named like the helper's own (and like caller names)
      [] f = "h_kwi"  -> Lam(<<"a", "b">>, CallK(Lam(<<"a", "b">>, BinOp("+", BinOp("*", Name("a"), IntC(10)), Name("b"))),
                                                <<>>, <<"b", "a">>, <<Name("a"), Name("b")>>))
      \* the body uses a module-level constant of the module that defines the helper (t = 7; t is also a caller-side binder name)
      [] f = "h_gl"   -> Lam(<<"a">>, BinOp("+", Name("a"), IntC(7)))
      \* two lambdas with the same parameter name, entries of ONE list literal written one entry per line
      [] f = "h_l1"   -> Lam(<<"j">>, BinOp("*", Name("j"), IntC(3)))
      [] f = "h_l2"   -> Lam(<<"j">>, BinOp("+", Name("j"), IntC(200)))
      \* a parameter named like a module-level constant of the helper's own module (t = 7): the parameter wins
      [] f = "h_pg"   -> Lam(<<"a", "t">>, BinOp("+", BinOp("*", Name("a"), IntC(10)), Name("t")))
      [] f = "h_la"   -> Lam(<<"j">>, BinOp("*", Name("j"), IntC(2)))
      [] f = "h_lb"   -> Lam(<<"j">>, BinOp("*", Name("j"), IntC(5)))
      [] f = "h_d3"   -> LamD(<<"x", "y", "z">>, 2,
                              BinOp("+", BinOp("*", Name("x"), IntC(100)), BinOp("+", BinOp("*", Name("y"), IntC(10)), Name("z"))),
                              <<IntC(2), IntC(7)>>)
      [] OTHER        -> LamD(<<"x", "y">>, 1, BinOp("-", BinOp("*", Name("x"), IntC(3)), Name("y")), <<IntC(2)>>)

EvalFunc(t, env) ==      \* t = call whose func is a name
    LET f == t.a[1].s
        args == CallArgs(t)
        kwv  == CallKwVals(t)
    IN IF f = "EventDataset" THEN
           (IF "ds" \in DOMAIN env THEN env["ds"] ELSE Err("NameError"))
       ELSE IF f \in SeqOps THEN
           IF Len(args) = 0 THEN Unm("operator-arity")
           ELSE SeqOp(f, Eval(args[1], env), Tail(args), t.p, kwv, env)
       ELSE IF f \in HelperNames /\ f \notin DOMAIN env THEN
           EvalCalledLambda([t EXCEPT !.a[1] = HelperLam(f)], env)
       ELSE IF f = "Rec2" /\ f \notin DOMAIN env THEN
           \* data class Rec2(a: int, b: int = 22): Python's constructor binding, value = the record
           LET avs == [i \in 1..Len(args) |-> Eval(args[i], env)]
               kvs == [i \in 1..Len(kwv) |-> Eval(kwv[i], env)]
           IN IF AnyBad(avs \o kvs) THEN FirstBad(avs \o kvs)
              ELSE LET b == Bind(<<P("a", FALSE, 0), P("b", TRUE, 22)>>, avs, t.p, kvs) IN
                   IF ~b[1] THEN Err("TypeError-bind") ELSE VDict(<<"a", "b">>, b[2])
       ELSE IF f \in DOMAIN env THEN Unm("call-of-variable")
       ELSE LET avs == [i \in 1..Len(args) |-> Eval(args[i], env)]
                kvs == [i \in 1..Len(kwv) |-> Eval(kwv[i], env)]
            IN IF AnyBad(avs \o kvs) THEN FirstBad(avs \o kvs)
               ELSE IF f = "abs" THEN
                   (IF Len(avs) = 1 /\ Len(kvs) = 0 /\ IsNum(avs[1]) THEN VInt(Abs(avs[1].n))
                    ELSE Unm("abs"))
               ELSE IF FuncSig(f) # NoSig THEN
                   LET b == Bind(FuncSig(f), avs, t.p, kvs) IN
                   IF ~b[1] THEN Err("TypeError-bind") ELSE Mix(FuncCode(f), b[2])
               ELSE Unm("function " \o f)

(* module-level constants a lambda may capture (C01: captured values): the harness defines the same *)
(* names in the generated modules and in the CPython reference runtime                             *)
GlobalConsts == [CUT |-> 30, SCALE |-> 2]
Eval(t, env) ==
    CASE t.k = "name"  -> IF t.s \in DOMAIN env THEN env[t.s]
                          ELSE IF t.s \in DOMAIN GlobalConsts THEN VInt(GlobalConsts[t.s])
                          ELSE Err("NameError")
      [] t.k = "int"   -> VInt(t.n)
      [] t.k = "bool"  -> V("bool", t.n, "", <<>>, <<>>)
      [] t.k = "str"   -> VStr(t.s)
      [] t.k = "none"  -> VNone
      [] t.k = "attr"  -> EvalAttr(t, env)
      [] t.k = "call"  ->
           IF t.a[1].k = "lam" THEN EvalCalledLambda(t, env)
           ELSE IF t.a[1].k = "attr" THEN EvalMethod(t, env)
           ELSE IF t.a[1].k = "name" THEN EvalFunc(t, env)
           ELSE Unm("call-form")
      [] t.k = "binop" ->
           LET l == Eval(t.a[1], env) IN
           IF Bad(l) THEN l ELSE
           LET r == Eval(t.a[2], env) IN
           IF Bad(r) THEN r ELSE Arith(t.s, l, r)
      [] t.k = "unop"  ->
           LET x == Eval(t.a[1], env) IN
           IF Bad(x) THEN x
           ELSE CASE t.s = "not" -> VBool(~Truthy(x))
                  [] t.s = "-" -> IF IsNum(x) THEN VInt(-x.n) ELSE Err("TypeError")
                  [] t.s = "+" -> IF IsNum(x) THEN VInt(x.n) ELSE Err("TypeError")
                  [] t.s = "~" -> IF IsNum(x) THEN VInt(-x.n - 1) ELSE Err("TypeError")
                  [] OTHER -> Unm("unop")
      [] t.k = "boolop" ->
           LET RECURSIVE Go(_)
               Go(i) == LET v == Eval(t.a[i], env) IN
                        IF Bad(v) \/ i = Len(t.a) THEN v
                        ELSE IF t.s = "and" THEN (IF Truthy(v) THEN Go(i + 1) ELSE v)
                        ELSE (IF Truthy(v) THEN v ELSE Go(i + 1))
           IN Go(1)
      [] t.k = "cmp" ->
           LET RECURSIVE Go(_, _)
               Go(i, l) == LET r == Eval(t.a[i + 1], env) IN
                           IF Bad(r) THEN r
                           ELSE LET c == Compare1(t.p[i], l, r) IN
                                IF Bad(c) \/ i = Len(t.p) THEN c
                                ELSE IF Truthy(c) THEN Go(i + 1, r) ELSE c
               l0 == Eval(t.a[1], env)
           IN IF Bad(l0) THEN l0 ELSE Go(1, l0)
      [] t.k = "ifexp" ->
           LET c == Eval(t.a[1], env) IN
           IF Bad(c) THEN c ELSE IF Truthy(c) THEN Eval(t.a[2], env) ELSE Eval(t.a[3], env)
      [] t.k \in {"tuple", "list"} ->
           LET vs == [i \in 1..Len(t.a) |-> Eval(t.a[i], env)] IN
           IF AnyBad(vs) THEN FirstBad(vs)
           ELSE IF t.k = "tuple" THEN VTup(vs) ELSE VList(vs)
      [] t.k = "dict" ->
           LET n == Len(t.a) \div 2
               kvs == [i \in 1..n |-> Eval(t.a[2 * i - 1], env)]
               vs == [i \in 1..n |-> Eval(t.a[2 * i], env)]
           IN IF AnyBad(kvs \o vs) THEN FirstBad(kvs \o vs)
              ELSE IF \E i \in 1..n : kvs[i].t \notin {"str", "int", "bool"} THEN Unm("dict-key")
              ELSE \* a key written more than once keeps its first position and takes its last value (Python)
                   LET same(i, j) == DictKeyOf(kvs[i]) = DictKeyOf(kvs[j])
                       firsts == {i \in 1..n : \A j \in 1..(i - 1) : ~same(j, i)}
                       RECURSIVE Asc(_)
                       Asc(i) == IF i > n THEN <<>> ELSE (IF i \in firsts THEN <<i>> ELSE <<>>) \o Asc(i + 1)
                       ord == Asc(1)
                       lastOf(i) == CHOOSE j \in 1..n : same(j, i) /\ \A m \in (j + 1)..n : ~same(m, i)
                   IN VDict([q \in 1..Len(ord) |-> DictKeyOf(kvs[ord[q]])], [q \in 1..Len(ord) |-> vs[lastOf(ord[q])]])
      [] t.k = "sub"   -> EvalSub(t.a[1], t.a[2], env)
      [] t.k = "comp"  ->
           LET sv == Eval(t.a[2], env) IN
           IF Bad(sv) THEN sv
           ELSE IF sv.t \notin {"list", "tup"} THEN Err("TypeError-notiterable")
           ELSE LET x == t.p[1]
                    nifs == Len(t.a) - 2
                    RECURSIVE Keep(_, _)
                    Keep(v, j) == IF j > nifs THEN VBool(TRUE)
                                  ELSE LET c == Eval(t.a[2 + j], (x :> v) @@ env) IN
                                       IF Bad(c) THEN c
                                       ELSE IF Truthy(c) THEN Keep(v, j + 1) ELSE VBool(FALSE)
                    ks == [i \in 1..Len(sv.e) |-> Keep(sv.e[i], 1)]
                IN IF AnyBad(ks) THEN FirstBad(ks)
                   ELSE LET kept == Filter(sv.e, [i \in 1..Len(ks) |-> ks[i].n = 1])
                            rs == [i \in 1..Len(kept) |-> Eval(t.a[1], (x :> kept[i]) @@ env)]
                        IN IF AnyBad(rs) THEN FirstBad(rs) ELSE VList(rs)
      [] t.k = "lam"   -> Unm("lambda-as-value")
      [] OTHER -> Unm("kind " \o t.k)

---------------------------------------------------------------------------
(* Model datasets.  Values are pairwise distinct within a dataset; D3 is    *)
(* D2 with shifted values so that a literal cannot coincide with a field    *)
(* value in both.                                                           *)
MkTrk(id, pt, q) == VObj("Trk", id, <<"pt", "q">>, <<VInt(pt), VInt(q)>>)
MkJet(id, pt, eta, trks) ==
    VObj("Jet", id, <<"pt", "eta", "trks">>, <<VInt(pt), VInt(eta), VList(trks)>>)
MkEvt(id, met, n, jets, trks) ==
    VObj("Evt", id, <<"met", "n", "jets", "trks">>, <<VInt(met), VInt(n), VList(jets), VList(trks)>>)

D0 == <<>>
D1 == <<MkEvt(1, 40, 0, <<>>, <<>>)>>
D2(sh) == <<
    MkEvt(1, 41 + sh, 1, <<>>, <<MkTrk(11, 31 + sh, -1)>>),
    MkEvt(2, -(43 + sh), 0,
          <<MkJet(21, 52 + sh, -3, <<MkTrk(22, 33 + sh, 1), MkTrk(23, 0, -1)>>)>>, <<>>),
    MkEvt(3, 47 + sh, 2,
          <<MkJet(31, 58 + sh, 4, <<>>),
            MkJet(32, -(61 + sh), 0, <<MkTrk(33, 37 + sh, 1)>>)>>,
          <<MkTrk(34, 39 + sh, 1), MkTrk(35, -(29 + sh), -1)>>) >>
(* every collection non-empty: lets First() chains evaluate without error *)
D4 == <<
    MkEvt(1, 71, 3,
          <<MkJet(41, 72, 5, <<MkTrk(42, 73, 1), MkTrk(43, 74, -1)>>),
            MkJet(44, 75, -6, <<MkTrk(45, 76, -1)>>)>>,
          <<MkTrk(46, 77, 1), MkTrk(47, 78, 1)>>),
    MkEvt(2, 81, 1,
          <<MkJet(51, 82, 7, <<MkTrk(52, 83, 1)>>)>>,
          <<MkTrk(53, 84, -1)>>) >>

Datasets == <<D0, D1, D2(0), D2(100), D4>>
NData == Len(Datasets)
EnvOf(d) == [x \in {"ds"} |-> VList(Datasets[d])]

EvalOn(t, d) == Eval(t, EnvOf(d))
(* result of the original is usable as a reference on dataset d *)
Usable(v) == ~Bad(v) /\ ~DeepUnm(v)

=============================================================================
