------------------------------ MODULE Grammar ------------------------------
(***************************************************************************)
(* Sorted, scoped, budgeted generator of query programs, as derivations:   *)
(* the state is a term with typed holes, one step expands the leftmost     *)
(* hole by one production, complete terms are the programs.  Programs are  *)
(* type-correct by construction over the model universe of Sem.            *)
(*                                                                         *)
(* hole == [k = "hole", s = sort, n = budget, p = scope names,             *)
(*          a = scope sorts (as [k = "sort", s = sort] records)]           *)
(* The budget counts binding / operator constructs; leaves are free.       *)
(***************************************************************************)
EXTENDS Terms

CONSTANTS Budget,      \* constructs allowed in one program
          Fam,         \* production family (a string, see Enabled)
          Rand         \* TRUE: random-walk mode (leaves suppressed while budget remains)

SortT(s) == T("sort", s, 0, <<>>, <<>>)
Hole(s, b, ns, ss) == T("hole", s, b, ns, ss)

ObjSorts == {"Evt", "Jet", "Trk"}
SeqOf(x) == "Seq" \o x
(* packaging sorts: Pair = (Int, Int); Rec = {k1: Int, k2: Int}; Nest = (Pair, Int);  *)
(* RecP = {k1: Pair, k2: Int}; PS = (SeqJet, Int)                                     *)
PackSorts == {"Pair", "Rec", "Nest", "RecP", "PS", "PSP", "RecS", "RecI"}   \* RecI = {0: Int, 1: Int}   \* PSP = (SeqPair, Int); RecS = {k1: PS, k2: Pair}
ElemSorts == IF Fam \in {"fused", "betad", "corea"} THEN {"Evt", "Jet", "Int"}
             ELSE IF Fam = "betaw" THEN {"Evt", "Jet", "Trk"}
             ELSE IF Fam \in {"betads", "betadn"} THEN {"Evt", "Int", "Pair"}
             ELSE IF Fam = "chainf" THEN {"Evt", "Jet", "Int", "Pair", "Rec", "Nest"}
             ELSE IF Fam = "e2eb" THEN {"Evt", "Jet", "Trk", "Int", "SeqInt", "SeqSeqInt"}
             ELSE IF Fam = "mdp" THEN {"Evt", "Jet", "Int", "PS", "RecS"}      \* MetaData wrappers inside packaged values
             ELSE IF Fam = "chainp" THEN {"Evt", "Jet", "Int", "Pair", "PSP", "SeqInt"}   \* nested packaging and
                                                        \* nested result sequences, few sorts, deep
             ELSE ObjSorts \cup {"Int"} \cup (IF Fam \in {"chain1", "chainx"} THEN PackSorts \ {"RecS"}
              ELSE IF Fam = "chain" THEN PackSorts \ {"RecS", "RecI"} ELSE {})
SeqSorts == {SeqOf(x) : x \in ElemSorts}
Elem(sq) == CHOOSE x \in ElemSorts : SeqOf(x) = sq
IsSeqSort(s) == s \in SeqSorts

(* fields: <<class, field, sort>> *)
Fields == { <<"Evt", "met", "Int">>, <<"Evt", "n", "Int">>, <<"Evt", "jets", "SeqJet">>,
            <<"Evt", "trks", "SeqTrk">>, <<"Jet", "pt", "Int">>, <<"Jet", "eta", "Int">>,
            <<"Jet", "trks", "SeqTrk">>, <<"Trk", "pt", "Int">>, <<"Trk", "q", "Int">> }

(* ------------------------------------------------------------------ *)
(* production families                                                *)
Binders == CASE Fam \in {"fuse1", "chain1", "md1", "chainx", "chainp", "mdp", "fused", "chainf", "e2el"} -> {"x"}
             [] Fam = "helper" -> {"a", "t", "a_1"}     \* (a_1: what an inner binder a is renamed to when it collides)
             [] Fam = "e2eb" -> {"x", "x_1"}
             [] Fam = "aggs" -> {"len", "x"}         \* a lambda parameter named like a shortcut (used as a value, never called)
             [] Fam = "betadn" -> {"ds", "x"}        \* nested called lambdas, the inner one named like the dataset
             [] Fam = "betads" -> {"ds"}        \* a called lambda's parameter named like the (free) dataset name
             [] Fam = "corea" -> {"arg_0", "arg_1", "arg_e"}     \* names the simplifier itself generates / names that look alike
             [] OTHER -> {"x", "y"}

AllProds == {"AbsentKey", "Add", "AggExpl", "AggOdd", "And", "Beta", "Beta2", "BetaDef", "BetaKw", "BetaSel", "BetaSeq", "BetaSig", "Cmp", "Comp", "Count", "DictAttr", "DictProj", "DupKey", "First", "FirstProj", "Func", "FuncKw", "Helper", "HelperE2E", "If", "KwOp", "Len", "ListProj", "MD", "MDDef", "Max", "MethArgs", "MethKw", "Min", "Mul", "Neg", "NegIdx", "Not", "OpDef", "Or", "OtherMeth", "OutIdx", "Pack", "Select", "SelectMany", "SliceIdx", "Sum", "Thunk", "True", "TupProj", "UnIdx", "VarIdx", "Where"}
ProdSet ==
    CASE Fam = "core"  -> {"Select", "Where", "SelectMany", "First", "Count", "Beta",
                                    "Add", "Cmp", "TupProj", "True"}
      [] Fam = "fuse"  -> {"Select", "Where", "SelectMany", "First", "Count", "Cmp", "Add"}
      [] Fam = "fused" -> {"Select", "Where", "SelectMany", "OpDef", "Count"}     \* (comparisons are zero-cost leaves here)
      \* a filter / selection moved under the binder of a SelectMany while an enclosing CALLED lambda's parameter is live
      [] Fam = "betaw" -> {"Beta", "Where", "SelectMany", "First"}
      \* called lambdas whose parameter lists go beyond plain parameters (positional-only, keyword-only, *args)
      [] Fam = "betav" -> {"Select", "BetaSig", "Add", "Count", "First"}
      [] Fam = "betads" -> {"Select", "First", "BetaSeq", "Pack", "FirstProj"}
      \* an outer called lambda whose argument mentions the dataset, an inner one whose PARAMETER is named like it
      [] Fam = "betadn" -> {"Select", "BetaSeq", "BetaInt", "Pack", "FirstProj"}
      [] Fam = "chainf" -> {"Select", "Where", "SelectMany", "Cmp", "Pack", "First", "FirstProj"}
      [] Fam = "corea" -> {"Select", "Where", "SelectMany", "First", "Count", "Cmp", "Add", "Beta"}
      [] Fam = "fuse1" -> {"Select", "Where", "SelectMany", "First", "Count", "Cmp", "Add",
                                    "Beta", "TupProj", "DictProj", "If", "MethArgs", "True"}
      [] Fam = "pack"  -> {"Select", "Where", "SelectMany", "Cmp", "TupProj", "ListProj",
                                    "DictProj", "DictAttr", "First", "Count", "Add"}
      [] Fam = "beta"  -> {"Select", "SelectMany", "Where", "Beta", "BetaKw", "Beta2", "Count",
                                    "First", "Add", "Cmp"}
      [] Fam = "betad" -> {"Select", "BetaDef", "Count", "First", "Add", "Cmp"}
      [] Fam = "expr"  -> {"Select", "Where", "First", "Count", "Add", "Mul", "Cmp", "If",
                                    "And", "Or", "Not", "Neg", "MethArgs", "MethKw", "Func", "True",
                                    "Sum"}
      [] Fam = "idx"   -> {"Select", "First", "Count", "TupProj", "ListProj", "DictProj",
                                    "DictAttr", "NegIdx", "VarIdx", "SliceIdx", "OutIdx", "AbsentKey",
                                    "Add", "Beta", "UnIdx", "DupKey"}
      [] Fam = "agg"   -> {"Select", "Where", "SelectMany", "Count", "Len", "Sum", "Max", "Min",
                                    "Add", "Cmp", "First", "AggExpl"}
      [] Fam = "chainp" -> {"Select", "Add", "Pack"}
      [] Fam = "chain1" -> {"Select", "Where", "SelectMany", "Cmp", "Add", "Pack", "Count", "FuncKw"}
      [] Fam \in {"chain", "chainx"} ->
                          {"Select", "Where", "SelectMany", "Cmp", "Add", "Pack", "Count"}
      [] Fam = "mdp"   -> {"Select", "MD", "Pack", "MDDef"}
      [] Fam = "meth"  -> {"Select", "Where", "SelectMany", "First", "Count", "Cmp", "Add", "Sum",
                                    "MethArgs", "OtherMeth", "KwOp"}
      [] Fam = "aggs"  -> {"Select", "Len", "Sum", "Add", "First"}
      \* method-form operators inside the callee of a call: a called lambda, a subscripted table of functions, a function's result
      [] Fam = "methb" -> {"Select", "Where", "Count", "First", "Cmp", "Beta", "CalleeOp"}
      [] Fam = "agg2"  -> {"Select", "Where", "Count", "Len", "Sum", "Max", "Min", "Add", "Cmp",
                                    "AggOdd", "First"}
      [] Fam = "md1"   -> {"Select", "Where", "Count", "Cmp", "MD"}
      [] Fam = "md"    -> {"Select", "Where", "SelectMany", "Count", "Cmp", "Add", "MD", "First"}
      [] Fam = "comp"  -> {"Comp", "Select", "Count", "Sum", "Cmp", "Add", "First", "True"}
      [] Fam = "helper" -> {"Select", "Where", "SelectMany", "Helper", "Add", "Cmp", "Count", "First"}
      [] Fam = "e2e"   -> {"Select", "Where", "SelectMany", "First", "Count", "Add", "Mul", "Cmp", "If",
                                    "TupProj", "MethArgs", "MethKw", "Sum", "And", "BetaDef", "HelperE2E", "Thunk"}
      [] Fam = "e2eb"  -> {"Select", "Add", "BetaSel"}     \* called lambdas resolved when the query is built
      [] Fam = "e2et"  -> {"Select", "Where", "Add", "Cmp", "Thunk"}
      \* chains whose stages differ only in a constant (rendered as ONE lambda expression in a loop over the constants)
      [] Fam = "e2el"  -> {"Select", "Where", "SelectMany"}
      [] Fam = "all"   -> AllProds \ {"OtherMeth", "KwOp", "AggOdd", "MD", "OutIdx", "AbsentKey", "Comp", "Helper", "HelperE2E",
                                       "AggExpl", "FuncKw", "UnIdx", "Thunk", "DupKey", "BetaSig", "BetaSeq", "FirstProj", "OpDef", "BetaInt"}
      [] OTHER -> {}

(* ProdSet is a constant-level definition: TLC evaluates it once *)
Enabled(prod) == prod \in ProdSet

(* ------------------------------------------------------------------ *)
Visible(ns, i) == \A j \in (i + 1)..Len(ns) : ns[j] # ns[i]
VarsOf(s, ns, ss) == {Name(ns[i]) : i \in {j \in 1..Len(ns) : ss[j].s = s /\ Visible(ns, j)}}

(* v.f for every visible object variable v with a field f of sort s *)
(* a field reference: attribute v.f, or (typed families) the method call v.f() -- Jet.eta has a   *)
(* required parameter, so it is always written with an argument there                              *)
MethodLeaves == Fam \in {"e2e", "e2et", "e2eb", "e2el"}
FieldRef(v, cls, f) == IF ~MethodLeaves THEN Attr(v, f)
                       ELSE IF cls = "Jet" /\ f = "eta" THEN Meth(v, f, <<IntC(1)>>) ELSE Meth(v, f, <<>>)
FieldRefs(s, ns, ss) ==
    UNION {{FieldRef(Name(ns[i]), g[1], g[2]) : g \in {h \in Fields : h[1] = ss[i].s /\ h[3] = s}} :
              i \in {j \in 1..Len(ns) : Visible(ns, j)}}

(* constant projections of visible packaged variables that have sort s *)
ProjRefs(s, ns, ss) ==
    UNION {LET v == Name(ns[i])  vs == ss[i].s IN
           CASE vs = "Pair" /\ s = "Int" -> {Sub(v, IntC(0)), Sub(v, IntC(1))}
             [] vs = "Rec" /\ s = "Int"  -> {Sub(v, StrC("k1")), Attr(v, "k2")}
             [] vs = "RecI" /\ s = "Int" -> {Sub(v, IntC(0)), Sub(v, IntC(1))}
             [] vs = "Nest" /\ s = "Int" -> {Sub(Sub(v, IntC(0)), IntC(1)), Sub(v, IntC(1))}
             [] vs = "RecP" /\ s = "Int" -> {Sub(Attr(v, "k1"), IntC(0)), Sub(v, StrC("k2"))}
             [] vs = "PS" /\ s = "Int"   -> {Sub(v, IntC(1))}
             [] vs = "PS" /\ s = "SeqJet" -> {Sub(v, IntC(0))}
             [] vs = "PSP" /\ s = "Int"   -> {Sub(v, IntC(1))}
             [] vs = "PSP" /\ s = "SeqPair" -> {Sub(v, IntC(0))}
             [] OTHER -> {} :
           i \in {j \in 1..Len(ns) : Visible(ns, j)}}

BadProjRefs(s, ns, ss) ==
    IF s # "Int" \/ Fam # "chainx" THEN {} ELSE
    UNION {LET v == Name(ns[i])  vs == ss[i].s IN
           CASE vs = "Pair" -> {Sub(v, UnOp("-", IntC(1))), Sub(v, BinOp("%", Sub(v, IntC(0)), IntC(2))),
                                Sub(Sub(v, Slice(IntC(1), Absent, Absent)), IntC(0)),
                                IfExp(BoolC(TRUE), IntC(1), Sub(v, IntC(2)))}
             [] vs = "Rec"  -> {IfExp(BoolC(TRUE), IntC(1), Sub(v, StrC("k9"))),
                                IfExp(BoolC(TRUE), IntC(1), Attr(v, "k9"))}
             [] OTHER -> {} :
           i \in {j \in 1..Len(ns) : Visible(ns, j)}}

Leaves(s, ns, ss) ==
    (IF s \in PackSorts THEN {} ELSE VarsOf(s, ns, ss)) \cup FieldRefs(s, ns, ss)
      \cup ProjRefs(s, ns, ss) \cup BadProjRefs(s, ns, ss)
      \cup (IF s = "SeqEvt" /\ "ds" \notin Range(ns) THEN {Name("ds")} ELSE {})
      \cup (IF s = "Int" THEN {IntC(1)} ELSE {})
      \cup (IF s = "Pair" /\ Fam = "betadn" THEN {Tup(<<IntC(1), IntC(1)>>)} ELSE {})      \* (a package at no cost: depth goes to the binders)
      \cup (IF s = "Int" /\ Fam \in {"e2e", "e2et"} THEN {Name("CUT")} ELSE {})        \* a captured module-level constant
      \cup (IF s = "Bool" /\ Enabled("True") THEN {BoolC(TRUE)} ELSE {})
      \cup (IF s = "Bool" /\ Fam = "comp" THEN {IntC(0)} ELSE {})     \* a constant condition that is falsy without being False
      \cup (IF s = "Bool" /\ (Fam \in {"comp", "fused", "betaw"} \/ Rand)      \* (random walks must never dead-end on a Boolean hole)
            THEN {Cmp(">", f, IntC(1)) : f \in VarsOf("Int", ns, ss) \cup FieldRefs("Int", ns, ss)} ELSE {})
      \cup (IF s = "Bool" /\ Fam = "e2el"
            THEN {Cmp(">", f, IntC(c)) : f \in VarsOf("Int", ns, ss) \cup FieldRefs("Int", ns, ss), c \in {0, 2}} ELSE {})
      \cup (IF s = "Int" /\ Fam = "e2el"
            THEN {BinOp("+", f, IntC(c)) : f \in VarsOf("Int", ns, ss), c \in {0, 2}} ELSE {})

Split2(r) == {<<i, r - i>> : i \in 0..r}
Split3(r) == {<<q[1], q[2], r - q[1] - q[2]>> : q \in {w \in (0..r) \X (0..r) : w[1] + w[2] <= r}}

Push(ns, x) == Append(ns, x)

(* function form Op(src, args) and, in the method-form families, src.Op(args) *)
MethForm == Fam \in {"meth", "methb", "e2e", "e2et", "e2eb", "e2el"}
FnForm == Fam \notin {"e2e", "e2et", "e2eb", "e2el"}          \* the end-to-end family writes operators the way users do: seq.Op(...)
Forms(op, src, rest) == (IF FnForm THEN {Fn(op, <<src>> \o rest)} ELSE {})
                          \cup (IF MethForm THEN {Meth(src, op, rest)} ELSE {})

(* lambda-taking operator:  Op(hole srcSort, lambda x: hole bodySort) *)
OpProd(op, srcSort, elemSort, bodySort, r, ns, ss) ==
    UNION {Forms(op, Hole(srcSort, sp[1], ns, ss),
                 <<Lam1(x, Hole(bodySort, sp[2], Push(ns, x), Append(ss, SortT(elemSort))))>>) :
              sp \in Split2(r), x \in Binders}

NonLeaf(h) ==
    LET s == h.s   b == h.n   ns == h.p   ss == h.a   r == b - 1 IN
    (IF b = 0 THEN {} ELSE
      (* ---- sequences ---- *)
      (IF IsSeqSort(s) /\ s \in SeqSorts /\ Enabled("Select") THEN
          UNION {OpProd("Select", SeqOf(y), y, Elem(s), r, ns, ss) : y \in ElemSorts}
       ELSE {}) \cup
      (IF s \in SeqSorts /\ Enabled("Where") THEN
          OpProd("Where", s, Elem(s), "Bool", r, ns, ss) ELSE {}) \cup
      (IF s \in SeqSorts /\ Enabled("SelectMany") THEN
          UNION {OpProd("SelectMany", SeqOf(y), y, s, r, ns, ss) : y \in ElemSorts \ {"Int"}}
       ELSE {}) \cup
      (* ---- operator lambdas with a further, defaulted parameter: Op(src, lambda x, k=<default>: body); the  ---- *)
      (* ---- default is an expression of the ENCLOSING scope                                                  ---- *)
      (IF s \in SeqSorts /\ Enabled("OpDef") THEN
          UNION {UNION {{Fn(o[1], <<Hole(SeqOf(y), sp[1], ns, ss),
                                  T("lam", "", 1, <<x, "k">>,
                                    <<Hole(o[2], sp[2], ns \o <<x, "k">>, ss \o <<SortT(y), SortT("Int")>>),
                                      Hole("Int", 0, ns, ss)>>)>>) :
                          sp \in Split2(r), x \in Binders} :
                    o \in {<<"Select", Elem(s)>>} \cup (IF y = Elem(s) THEN {<<"Where", "Bool">>} ELSE {})
                           \cup (IF y # "Int" THEN {<<"SelectMany", s>>} ELSE {})} : y \in ElemSorts}
       ELSE {}) \cup
      (* ---- comprehensions: [elt for x in iter if c1 if c2] and generator expressions ---- *)
      (IF s \in SeqSorts /\ Enabled("Comp") THEN
          UNION {{Comp(kd, x, Hole(Elem(s), sp[1], Push(ns, x), Append(ss, SortT(y))), Hole(SeqOf(y), sp[2], ns, ss),
                       CASE nifs = 0 -> <<>>
                         [] nifs = 1 -> <<Hole("Bool", sp[3], Push(ns, x), Append(ss, SortT(y)))>>
                         [] OTHER -> <<Hole("Bool", sp[3], Push(ns, x), Append(ss, SortT(y))),
                                       Hole("Bool", 0, Push(ns, x), Append(ss, SortT(y)))>>) :
                     sp \in Split3(r), x \in Binders, kd \in {"list", "gen"},
                     nifs \in (IF r = 0 THEN {0} ELSE {0, 1, 2})} : y \in ElemSorts}
       ELSE {}) \cup
      (* ---- packaging ---- *)
      (IF s = "Pair" /\ Enabled("Pack") THEN
          {Tup(<<Hole("Int", sp[1], ns, ss), Hole("Int", sp[2], ns, ss)>>) : sp \in Split2(r)} \cup
          (IF Fam = "chainp" THEN {} ELSE
           {Lst(<<Hole("Int", sp[1], ns, ss), Hole("Int", sp[2], ns, ss)>>) : sp \in Split2(r)})
       ELSE {}) \cup
      (IF s = "Rec" /\ Enabled("Pack") THEN
          {Dct(<<StrC("k1"), Hole("Int", sp[1], ns, ss), StrC("k2"), Hole("Int", sp[2], ns, ss)>>) :
              sp \in Split2(r)}
       ELSE {}) \cup
      (IF s = "RecI" /\ Enabled("Pack") THEN
          {Dct(<<IntC(0), Hole("Int", sp[1], ns, ss), IntC(1), Hole("Int", sp[2], ns, ss)>>) : sp \in Split2(r)}
       ELSE {}) \cup
      (IF s = "Nest" /\ Enabled("Pack") THEN
          {Tup(<<Hole("Pair", sp[1], ns, ss), Hole("Int", sp[2], ns, ss)>>) : sp \in Split2(r)}
       ELSE {}) \cup
      (IF s = "RecP" /\ Enabled("Pack") THEN
          {Dct(<<StrC("k1"), Hole("Pair", sp[1], ns, ss), StrC("k2"), Hole("Int", sp[2], ns, ss)>>) :
              sp \in Split2(r)}
       ELSE {}) \cup
      (IF s = "RecS" /\ Enabled("Pack") THEN
          {Dct(<<StrC("k1"), Hole("PS", sp[1], ns, ss), StrC("k2"), Hole("Pair", sp[2], ns, ss)>>) : sp \in Split2(r)} \cup
          {Dct(<<StrC("k1"), Hole("PS", r, ns, ss), StrC("k2"), IntC(1)>>)}
       ELSE {}) \cup
      (IF s = "PSP" /\ Enabled("Pack") THEN
          {Tup(<<Hole("SeqPair", sp[1], ns, ss), Hole("Int", sp[2], ns, ss)>>) : sp \in Split2(r)}
       ELSE {}) \cup
      (IF s = "PS" /\ Enabled("Pack") THEN
          {Tup(<<Hole("SeqJet", sp[1], ns, ss), Hole("Int", sp[2], ns, ss)>>) : sp \in Split2(r)}
       ELSE {}) \cup
      (* ---- elements ---- *)
      (IF s \in ElemSorts /\ Enabled("First") THEN
          Forms("First", Hole(SeqOf(s), r, ns, ss), <<>>) ELSE {}) \cup
      (IF s \in ElemSorts \cup {"Bool"} \cup SeqSorts /\ Enabled("Beta") THEN
          {CallP(Lam1(x, Hole(s, sp[2], Push(ns, x), Append(ss, SortT(y)))),
                 <<Hole(y, sp[1], ns, ss)>>) :
              sp \in Split2(r), x \in Binders, y \in {"Jet", "Int", "Evt"}}
       ELSE {}) \cup
      (IF s = "Int" /\ Enabled("BetaKw") THEN
          {CallK(Lam(<<x, z>>, Hole("Int", sp[3], ns \o <<x, z>>, ss \o <<SortT("Int"), SortT("Int")>>)),
                 <<>>, <<z, x>>, <<Hole("Int", sp[1], ns, ss), Hole("Int", sp[2], ns, ss)>>) :
              sp \in Split3(r), x \in {"x"}, z \in {"y"}}
       ELSE {}) \cup
      (* called lambda with two defaulted parameters: both given / the later one left to its default / *)
      (* the earlier one left and the later one given by keyword                                      *)
      (IF s = "Int" /\ Enabled("BetaDef") THEN
          LET lam3(bh) == T("lam", "", 2, <<"x", "y", "z">>,
                            <<BinOp("+", BinOp("*", Name("x"), IntC(100)), BinOp("+", BinOp("*", Name("y"), IntC(10)), bh)),
                              IntC(2), IntC(7)>>)
              bodyHole(b2) == Hole("Int", b2, ns \o <<"x", "y", "z">>, ss \o <<SortT("Int"), SortT("Int"), SortT("Int")>>)
          IN {CallP(lam3(bodyHole(sp[3])), <<Hole("Int", sp[1], ns, ss), Hole("Int", sp[2], ns, ss)>>) : sp \in Split3(r)}
             \cup {CallP(lam3(bodyHole(sp[2])), <<Hole("Int", sp[1], ns, ss)>>) : sp \in Split2(r)}
             \cup {CallK(lam3(bodyHole(sp[3])), <<Hole("Int", sp[1], ns, ss)>>, <<"z">>, <<Hole("Int", sp[2], ns, ss)>>) :
                       sp \in Split3(r)}
             \* a default that is an expression of the ENCLOSING scope (Python evaluates defaults outside the lambda)
             \cup {CallP(T("lam", "", 1, <<"x", "y">>,
                           <<BinOp("+", BinOp("*", Name("x"), IntC(10)), Name("y")), Hole("Int", 0, ns, ss)>>),
                         <<Hole("Int", r, ns, ss)>>)}
       ELSE {}) \cup
      (* a called lambda over a sequence / an event (its parameter may be named like a free name of its argument) *)
      (IF s \in ElemSorts \cup SeqSorts /\ Enabled("BetaSeq") THEN
          {CallP(Lam1(x, Hole(s, sp[2], Push(ns, x), Append(ss, SortT(y)))), <<Hole(y, sp[1], ns, ss)>>) :
              sp \in Split2(r), x \in Binders, y \in {"SeqEvt", "SeqPair", "Evt"} \cap (ElemSorts \cup SeqSorts)}
       ELSE {}) \cup
      (* a called lambda with an integer parameter (family betadn) *)
      (IF s = "Int" /\ Enabled("BetaInt") THEN
          {CallP(Lam1(x, Hole("Int", r, Push(ns, x), Append(ss, SortT("Int")))), <<IntC(1)>>) : x \in Binders}
       ELSE {}) \cup
      (* a constant projection of the first element of a sequence of packages *)
      (IF s = "Int" /\ Enabled("FirstProj") THEN
          {Sub(Fn("First", <<Hole("SeqPair", r, ns, ss)>>), IntC(i)) : i \in {0, 1}} \cup
          (IF "Rec" \in ElemSorts
           THEN {Sub(Fn("First", <<Hole("SeqRec", r, ns, ss)>>), StrC("k1")), Attr(Fn("First", <<Hole("SeqRec", r, ns, ss)>>), "k2")}
           ELSE {})
       ELSE {}) \cup
      (* called lambdas with positional-only / keyword-only / *args parameters *)
      (IF s = "Int" /\ Enabled("BetaSig") THEN
          LET mix(u, v) == BinOp("+", BinOp("*", u, IntC(10)), v)
              h2 == {<<Hole("Int", sp[1], ns, ss), Hole("Int", sp[2], ns, ss)>> : sp \in Split2(r)}
              h1 == Hole("Int", r, ns, ss)
          IN {CallP(LamG("po0ko0va1kw0", 0, <<"a">>, mix(Sub(Name("a"), IntC(0)), Sub(Name("a"), IntC(1))), <<>>, <<>>), hs) : hs \in h2}
             \cup {CallP(LamG("po0ko0va1kw0", 0, <<"a">>, Fn("len", <<Name("a")>>), <<>>, <<>>), <<h1>>)}
             \cup {CallP(LamG("po0ko0va1kw0", 0, <<x, "a">>, mix(Name(x), Sub(Name("a"), IntC(0))), <<>>, <<>>), hs) : hs \in h2, x \in Binders}
             \cup {CallP(LamG("po1ko0va0kw0", 0, <<x, "z">>, mix(Name(x), Name("z")), <<>>, <<>>), hs) : hs \in h2, x \in Binders}
             \cup {CallK(LamG("po1ko0va0kw0", 0, <<x, "z">>, mix(Name(x), Name("z")), <<>>, <<>>), <<hs[1]>>, <<"z">>, <<hs[2]>>) :
                       hs \in h2, x \in Binders}
             \cup {CallP(LamG("po2ko0va0kw0", 1, <<x, "z">>, mix(Name(x), Name("z")), <<IntC(3)>>, <<>>), <<h1>>) : x \in Binders}
             \cup {CallK(LamG("po0ko1va0kw0", 0, <<x, "k">>, mix(Name(x), Name("k")), <<>>, <<IntC(4)>>), <<hs[1]>>, <<"k">>, <<hs[2]>>) :
                       hs \in h2, x \in Binders}
             \cup {CallP(LamG("po0ko1va0kw0", 0, <<x, "k">>, mix(Name(x), Name("k")), <<>>, <<IntC(4)>>), <<h1>>) : x \in Binders}
             \cup {CallK(LamG("po0ko1va0kw0", 0, <<x, "k">>, mix(Name(x), Name("k")), <<>>, <<Absent>>), <<hs[1]>>, <<"k">>, <<hs[2]>>) :
                       hs \in h2, x \in Binders}
       ELSE {}) \cup
      (* a call whose callee is neither a name nor an attribute and contains a sequence operator: fs[Count(seq)](x), make(seq)(x) *)
      (IF s = "Int" /\ Enabled("CalleeOp") THEN
          UNION {UNION {{CallP(Sub(Name("fs"), c), <<Hole("Int", sp[2], ns, ss)>>),
                         CallP(Fn("make", <<c>>), <<Hole("Int", sp[2], ns, ss)>>)} :
                           c \in Forms("Count", Hole("SeqJet", sp[1], ns, ss), <<>>)} : sp \in Split2(r)}
       ELSE {}) \cup
      (* a parameter-less called lambda *)
      (IF s = "Int" /\ Enabled("Thunk") THEN {CallP(Lam(<<>>, Hole("Int", r, ns, ss)), <<>>)} ELSE {}) \cup
      (* a called lambda that selects over its argument; its inner lambda re-uses a binder name and its body sees *)
      (* every enclosing binder (free names of the called lambda)                                              *)
      (IF s \in SeqSorts /\ Enabled("BetaSel") THEN
          UNION {{CallP(Lam1("a", Meth(Name("a"), "Select",
                                       <<Lam1(x, Hole(Elem(s), sp[2], ns \o <<"a", x>>, ss \o <<SortT(SeqOf(y)), SortT(y)>>))>>)),
                        <<Hole(SeqOf(y), sp[1], ns, ss)>>) : sp \in Split2(r), x \in Binders} : y \in {"Jet", "Trk"}}
       ELSE {}) \cup
      (IF s = "Int" /\ Enabled("Beta2") THEN
          {CallP(Lam(<<x, z>>, Hole("Int", sp[3], ns \o <<x, z>>, ss \o <<SortT("Int"), SortT("Jet")>>)),
                 <<Hole("Int", sp[1], ns, ss), Hole("Jet", sp[2], ns, ss)>>) :
              sp \in Split3(r), x \in {"x"}, z \in {"y"}}
       ELSE {}) \cup
      (* ---- integers ---- *)
      (IF s = "Int" /\ Enabled("Count") THEN
          UNION {Forms("Count", Hole(SeqOf(y), r, ns, ss), <<>>) : y \in ElemSorts} ELSE {}) \cup
      (IF s = "Int" /\ Enabled("Len") /\ "len" \notin Range(ns) THEN
          {Fn("len", <<Hole(SeqOf(y), r, ns, ss)>>) : y \in {"Jet", "Int"}} ELSE {}) \cup
      (IF s = "Int" /\ Enabled("Sum") THEN Forms("Sum", Hole("SeqInt", r, ns, ss), <<>>) ELSE {}) \cup
      (IF s = "Int" /\ Enabled("AggOdd") THEN
          {IfExp(BoolC(TRUE), Hole("Int", sp[1], ns, ss), Fn(op, <<Hole("SeqInt", sp[2], ns, ss), IntC(1)>>)) :
              op \in {"Sum", "Count", "Max", "len"}, sp \in Split2(r)} \cup
          {IfExp(BoolC(TRUE), Hole("Int", r, ns, ss), x) :
              x \in {Name("Sum"), Name("Count"), Fn("Count", <<>>), Fn("Min", <<>>)}} \cup
          {Meth(Hole("SeqInt", r, ns, ss), op, <<>>) : op \in {"Sum", "Count", "Max", "Min"}} \cup
          {IfExp(BoolC(TRUE), Hole("Int", r, ns, ss), Meth(Name("ds"), "len", <<>>))} \cup
          \* a shortcut name called with a keyword argument is not a one-argument call: it stays as it is
          {CallK(Name(op), <<Hole("SeqInt", r, ns, ss)>>, <<"start">>, <<IntC(5)>>) : op \in {"Sum", "len", "Count"}}
       ELSE {}) \cup
      (IF s \in SeqSorts /\ Enabled("OtherMeth") THEN
          UNION {{Meth(Hole(SeqOf(y), sp[1], ns, ss), nm,
                       <<Lam1(x, Hole(Elem(s), sp[2], Push(ns, x), Append(ss, SortT(y))))>>) :
                     sp \in Split2(r), x \in Binders, nm \in {"Foo", "SelectedJets", "PreSelect", "select"}} : y \in {"Jet"}}
       ELSE {}) \cup
      (IF s = "Int" /\ Enabled("OtherMeth") THEN
          \* two (three) attribute accesses in a row on the result of a method-form operator: seq.First().p4.pt
          {Attr(Attr(c, "p4"), "pt") : c \in Forms("First", Hole("SeqJet", r, ns, ss), <<>>)} \cup
          {Attr(Attr(Attr(c, "p4"), "vec"), "x") : c \in Forms("First", Hole("SeqJet", r, ns, ss), <<>>)} \cup
          {Meth(Attr(Attr(c, "p4"), "me"), "pt", <<>>) : c \in Forms("First", Hole("SeqJet", r, ns, ss), <<>>)} \cup
          {Meth(v, nm, <<>>) : v \in VarsOf("Jet", ns, ss) \cup VarsOf("Evt", ns, ss), nm \in {"SumEt", "CountAbove", "FirstTrack"}} \cup
          {Meth(Hole("SeqJet", r, ns, ss), nm, <<>>) : nm \in {"CountAbove", "MaxPt", "Counts"}}
       ELSE {}) \cup
      (IF s \in SeqSorts /\ Enabled("KwOp") THEN
          {CallK(Attr(Hole(s, sp[1], ns, ss), "Where"), <<>>, <<"filter">>,
                 <<Lam1(x, Hole("Bool", sp[2], Push(ns, x), Append(ss, SortT(Elem(s)))))>>) :
              sp \in Split2(r), x \in {"x"}}
       ELSE {}) \cup
      (IF s \in SeqSorts /\ Enabled("MD") THEN
          {Fn("MetaData", <<Hole(s, r, ns, ss), d>>) : d \in {Dct(<<>>), Dct(<<StrC("m"), IntC(1)>>)}}
       ELSE {}) \cup
      (* a fold written by the user, with shortcuts inside its source and its lambda *)
      (IF s = "Int" /\ Enabled("AggExpl") THEN
          {Fn("Aggregate", <<Hole("SeqInt", sp[1], ns, ss), IntC(0),
                             Lam(<<"acc", "v">>, BinOp("+", Name("acc"),
                                 Hole("Int", sp[2], ns \o <<"acc", "v">>, ss \o <<SortT("Int"), SortT("Int")>>)))>>) :
              sp \in Split2(r)} \cup
          {Fn("Aggregate", <<Hole("SeqJet", sp[1], ns, ss), IntC(0),
                             Lam(<<"acc", "v">>, BinOp("+", Name("acc"),
                                 Hole("Int", sp[2], ns \o <<"acc", "v">>, ss \o <<SortT("Int"), SortT("Jet")>>)))>>) :
              sp \in Split2(r)}
       ELSE {}) \cup
      (* a MetaData wrapper inside the DEFAULT VALUE of a lambda parameter (evaluated in the enclosing scope) *)
      (IF s \in SeqSorts /\ Enabled("MDDef") THEN
          UNION {{Fn("Select", <<Hole(SeqOf(y), sp[1], ns, ss),
                                 T("lam", "", 1, <<x, "cut">>,
                                   <<Hole(Elem(s), sp[2], ns \o <<x, "cut">>, ss \o <<SortT(y), SortT("SeqEvt")>>),
                                     Fn("MetaData", <<Hole("SeqEvt", sp[3], ns, ss), d>>)>>)>>) :
                     sp \in Split3(r), x \in Binders, d \in {Dct(<<>>), Dct(<<StrC("m"), IntC(1)>>)}} : y \in {"Evt", "Jet"}}
       ELSE {}) \cup
      (IF s = "Int" /\ Enabled("Max") THEN {Fn("Max", <<Hole("SeqInt", r, ns, ss)>>)} ELSE {}) \cup
      (IF s = "Int" /\ Enabled("Min") THEN {Fn("Min", <<Hole("SeqInt", r, ns, ss)>>)} ELSE {}) \cup
      (IF s = "Int" /\ Enabled("Add") THEN
          {BinOp("+", Hole("Int", sp[1], ns, ss), Hole("Int", sp[2], ns, ss)) : sp \in Split2(r)}
       ELSE {}) \cup
      (IF s = "Int" /\ Enabled("Mul") THEN
          {BinOp(o, Hole("Int", sp[1], ns, ss), Hole("Int", sp[2], ns, ss)) :
              sp \in Split2(r), o \in {"*", "-", "//", "%"}}
       ELSE {}) \cup
      (IF s = "Int" /\ Enabled("Neg") THEN {UnOp("-", Hole("Int", r, ns, ss))} ELSE {}) \cup
      (IF s \in {"Int"} /\ Enabled("If") THEN
          {IfExp(Hole("Bool", sp[1], ns, ss), Hole(s, sp[2], ns, ss), Hole(s, sp[3], ns, ss)) :
              sp \in Split3(r)}
       ELSE {}) \cup
      (IF s = "Int" /\ Enabled("TupProj") THEN
          {Sub(Tup(<<Hole("Int", sp[1], ns, ss), Hole("Int", sp[2], ns, ss)>>), IntC(i)) :
              sp \in Split2(r), i \in {0, 1}}
       ELSE {}) \cup
      (IF s = "Int" /\ Enabled("ListProj") THEN
          {Sub(Lst(<<Hole("Int", sp[1], ns, ss), Hole("Int", sp[2], ns, ss)>>), IntC(i)) :
              sp \in Split2(r), i \in {1}}
       ELSE {}) \cup
      (IF s = "Int" /\ Enabled("DictProj") THEN
          {Sub(Dct(<<StrC("k1"), Hole("Int", sp[1], ns, ss), StrC("k2"), Hole("Int", sp[2], ns, ss)>>),
               StrC(key)) : sp \in Split2(r), key \in {"k1", "k2"}}
       ELSE {}) \cup
      (IF s = "Int" /\ Enabled("DictAttr") THEN
          {Attr(Dct(<<StrC("k1"), Hole("Int", sp[1], ns, ss), StrC("k2"), Hole("Int", sp[2], ns, ss)>>),
                "k2") : sp \in Split2(r)}
       ELSE {}) \cup
      (* a dictionary literal that writes a key twice: the last value counts *)
      (IF s = "Int" /\ Enabled("DupKey") THEN
          {Sub(Dct(<<StrC("k1"), Hole("Int", sp[1], ns, ss), StrC("k1"), Hole("Int", sp[2], ns, ss)>>), StrC("k1")) : sp \in Split2(r)} \cup
          {Attr(Dct(<<StrC("k1"), Hole("Int", sp[1], ns, ss), StrC("k2"), IntC(1), StrC("k1"), Hole("Int", sp[2], ns, ss)>>), "k1") : sp \in Split2(r)} \cup
          \* 1 and True are the same key
          {Sub(Dct(<<k[1], Hole("Int", sp[1], ns, ss), k[2], Hole("Int", sp[2], ns, ss)>>), IntC(1)) :
              sp \in Split2(r), k \in {<<IntC(1), BoolC(TRUE)>>, <<BoolC(TRUE), IntC(1)>>}}
       ELSE {}) \cup
      (IF s = "Int" /\ Enabled("NegIdx") THEN
          {Sub(Tup(<<Hole("Int", sp[1], ns, ss), Hole("Int", sp[2], ns, ss)>>), UnOp("-", IntC(1))) :
              sp \in Split2(r)} \cup
          {Sub(Lst(<<Hole("Int", sp[1], ns, ss), Hole("Int", sp[2], ns, ss)>>), IntC(-2)) :
              sp \in Split2(r)}
       ELSE {}) \cup
      (IF s = "Int" /\ Enabled("UnIdx") THEN
          {Sub(T(k, "", 0, <<>>, <<Hole("Int", sp[1], ns, ss), Hole("Int", sp[2], ns, ss), IntC(1)>>), UnOp(o[1], IntC(o[2]))) :
              sp \in Split2(r), k \in {"tuple", "list"}, o \in {<<"+", 1>>, <<"+", 0>>, <<"~", 0>>, <<"~", 1>>}}
       ELSE {}) \cup
      (IF s = "Int" /\ Enabled("VarIdx") THEN
          {Sub(Tup(<<Hole("Int", sp[1], ns, ss), Hole("Int", sp[2], ns, ss)>>),
               BinOp("%", Hole("Int", sp[3], ns, ss), IntC(2))) : sp \in Split3(r)}
       ELSE {}) \cup
      (IF s = "Int" /\ Enabled("SliceIdx") THEN
          {Sub(Sub(T(k, "", 0, <<>>, <<Hole("Int", sp[1], ns, ss), Hole("Int", sp[2], ns, ss)>>),
                   Slice(IntC(1), Absent, Absent)), IntC(0)) :
              sp \in Split2(r), k \in {"tuple", "list"}}
       ELSE {}) \cup
      (IF s = "Int" /\ Enabled("OutIdx") THEN
          {IfExp(BoolC(TRUE), Hole("Int", sp[1], ns, ss),
                 Sub(Tup(<<Hole("Int", sp[2], ns, ss)>>), IntC(1))) : sp \in Split2(r)}
       ELSE {}) \cup
      (IF s = "Int" /\ Enabled("AbsentKey") THEN
          {IfExp(BoolC(TRUE), Hole("Int", sp[1], ns, ss),
                 Sub(Dct(<<StrC("k1"), Hole("Int", sp[2], ns, ss)>>), StrC("k2"))) : sp \in Split2(r)} \cup
          {IfExp(BoolC(TRUE), Hole("Int", sp[1], ns, ss),
                 Attr(Dct(<<StrC("k1"), Hole("Int", sp[2], ns, ss)>>), "k2")) : sp \in Split2(r)}
       ELSE {}) \cup
      (IF s = "Int" /\ Enabled("MethArgs") THEN
          {Meth(v, "pt", <<Hole("Int", r, ns, ss)>>) : v \in VarsOf("Jet", ns, ss)} \cup
          {Meth(v, "eta", <<Hole("Int", sp[1], ns, ss), Hole("Int", sp[2], ns, ss)>>) :
              v \in VarsOf("Jet", ns, ss), sp \in Split2(r)} \cup
          {Meth(Fn("First", <<Hole("SeqJet", sp[1], ns, ss)>>), "pt", <<Hole("Int", sp[2], ns, ss)>>) :
              sp \in Split2(r)}
       ELSE {}) \cup
      (IF s = "Int" /\ Enabled("MethKw") THEN
          {CallK(Attr(v, "pt"), <<>>, <<"b">>, <<Hole("Int", r, ns, ss)>>) : v \in VarsOf("Jet", ns, ss)} \cup
          {CallK(Attr(Fn("First", <<Hole("SeqJet", sp[1], ns, ss)>>), "pt"), <<>>, <<"c">>,
                 <<Hole("Int", sp[2], ns, ss)>>) : sp \in Split2(r)}
       ELSE {}) \cup
      (IF s = "Int" /\ Enabled("Func") THEN
          {Fn("abs", <<Hole("Int", r, ns, ss)>>)} \cup
          {CallK(Name("myfn"), <<Hole("Int", sp[1], ns, ss)>>, <<"y">>, <<Hole("Int", sp[2], ns, ss)>>) :
              sp \in Split2(r)}
       ELSE {}) \cup
      (IF s = "Int" /\ Enabled("FuncKw") THEN
          {CallK(Name("myfn"), <<Hole("Int", sp[1], ns, ss)>>, <<"y">>, <<Hole("Int", sp[2], ns, ss)>>) : sp \in Split2(r)}
       ELSE {}) \cup
      (* ---- calls of captured one-line helpers (C05; table in Sem.HelperLam) ---- *)
      (IF s = "Int" /\ Enabled("Helper") THEN
          {Fn(hn, <<Hole("Int", r, ns, ss)>>) : hn \in {"h_id", "h_inc", "h_lam", "h_sub", "h_la", "h_lb", "h_cd", "h_th", "h_re1", "h_re2", "h_gl", "h_l1", "h_l2"}} \cup
          {Fn(hn, <<Hole("Jet", r, ns, ss)>>) : hn \in {"h_nest", "h_two", "h_cap", "h_comp", "h_comp2"}} \cup
          {Fn("h_sub", <<Hole("Int", sp[1], ns, ss), Hole("Int", sp[2], ns, ss)>>) : sp \in Split2(r)} \cup
          {Fn("h_nest2", <<Hole("Jet", sp[1], ns, ss), Hole("Int", sp[2], ns, ss)>>) : sp \in Split2(r)} \cup
          {CallK(Name("h_sub"), <<>>, <<"b", "a">>, <<Hole("Int", sp[1], ns, ss), Hole("Int", sp[2], ns, ss)>>) :
              sp \in Split2(r)} \cup
          {CallK(Name("h_kw"), <<Hole("Int", sp[1], ns, ss)>>, <<"y">>, <<Hole("Int", sp[2], ns, ss)>>) :
              sp \in Split2(r)} \cup
          {CallK(Name("h_kw"), <<>>, <<"x">>, <<Hole("Int", r, ns, ss)>>)} \cup
          {Fn("h_deep", <<Hole("Evt", r, ns, ss)>>)} \cup
          {Fn("h_rec", <<CallK(Name("Rec2"), <<Hole("Int", sp[1], ns, ss)>>, <<"b">>, <<Hole("Int", sp[2], ns, ss)>>)>>) :
              sp \in Split2(r)} \cup
          {Fn("h_rec", <<Fn("Rec2", <<Hole("Int", r, ns, ss)>>)>>)} \cup
          {Fn("h_d3", <<Hole("Int", r, ns, ss)>>)} \cup
          {Fn("h_d3", <<Hole("Int", sp[1], ns, ss), Hole("Int", sp[2], ns, ss)>>) : sp \in Split2(r)} \cup
          {CallK(Name("h_d3"), <<Hole("Int", sp[1], ns, ss)>>, <<"z">>, <<Hole("Int", sp[2], ns, ss)>>) : sp \in Split2(r)} \cup
          \* positional-only and keyword-only parameters
          {Fn(hn, <<Hole("Int", sp[1], ns, ss), Hole("Int", sp[2], ns, ss)>>) : hn \in {"h_po", "h_po2", "h_kwi", "h_pg"}, sp \in Split2(r)} \cup
          {CallK(Name(hn), <<Hole("Int", sp[1], ns, ss)>>, <<"b">>, <<Hole("Int", sp[2], ns, ss)>>) :
              hn \in {"h_po2", "h_ko", "h_kod"}, sp \in Split2(r)} \cup
          {Fn("h_kod", <<Hole("Int", r, ns, ss)>>)}
       ELSE {}) \cup
      (* ---- helpers in the end-to-end family (integer arguments only) ---- *)
      (IF s = "Int" /\ Enabled("HelperE2E") THEN
          {Fn(hn, <<Hole("Int", r, ns, ss)>>) : hn \in {"h_id", "h_inc", "h_d3"}} \cup
          {Fn(hn, <<Hole("Int", sp[1], ns, ss), Hole("Int", sp[2], ns, ss)>>) : hn \in {"h_sub", "h_d3"}, sp \in Split2(r)} \cup
          {CallK(Name("h_sub"), <<>>, <<"b", "a">>, <<Hole("Int", sp[1], ns, ss), Hole("Int", sp[2], ns, ss)>>) :
              sp \in Split2(r)} \cup
          \* every parameter given: the call is resolved at build time; the helper's parameters are named like binders
          {Fn("h_d3", <<Hole("Int", sp[1], ns, ss), Hole("Int", sp[2], ns, ss), Hole("Int", sp[3], ns, ss)>>) :
              sp \in Split3(r)}
       ELSE {}) \cup
      (* ---- booleans ---- *)
      (IF s = "Bool" /\ Enabled("Cmp") THEN
          {Cmp(">", Hole("Int", sp[1], ns, ss), Hole("Int", sp[2], ns, ss)) : sp \in Split2(r)}
       ELSE {}) \cup
      (IF s = "Bool" /\ Enabled("And") THEN
          {BoolOp("and", <<Hole("Bool", sp[1], ns, ss), Hole("Bool", sp[2], ns, ss)>>) : sp \in Split2(r)}
       ELSE {}) \cup
      (IF s = "Bool" /\ Enabled("Or") THEN
          {BoolOp("or", <<Hole("Bool", sp[1], ns, ss), Hole("Bool", sp[2], ns, ss)>>) : sp \in Split2(r)}
       ELSE {}) \cup
      (IF s = "Bool" /\ Enabled("Not") THEN {UnOp("not", Hole("Bool", r, ns, ss))} ELSE {})
    )

(* In the random families (names starting "rand" are mapped to "all" productions)  *)
(* leaves are suppressed while budget remains, otherwise uniform successor choice  *)
(* under -simulate favours tiny programs.                                          *)
Prods(h) ==
    LET lv == Leaves(h.s, h.p, h.a)
        nl == NonLeaf(h)
    IN IF Rand /\ nl # {} THEN nl ELSE lv \cup nl

RECURSIVE HasHole(_)
HasHole(t) == t.k = "hole" \/ \E i \in 1..Len(t.a) : t.k # "hole" /\ HasHole(t.a[i])

(* expand the leftmost hole *)
RECURSIVE Fill(_)
Fill(t) ==
    IF t.k = "hole" THEN Prods(t)
    ELSE IF \A i \in 1..Len(t.a) : ~HasHole(t.a[i]) THEN {}
    ELSE LET i == CHOOSE j \in 1..Len(t.a) : HasHole(t.a[j]) /\ \A m \in 1..(j - 1) : ~HasHole(t.a[m])
         IN {[t EXCEPT !.a[i] = c] : c \in Fill(t.a[i])}

RootSorts == CASE Fam = "chainp" -> {"SeqInt", "SeqSeqInt"}
               [] Fam = "mdp" -> {"SeqRecS", "SeqPS", "SeqInt"}
               [] Fam \in {"idx", "chain", "chain1", "chainx", "chainf"} -> {"SeqInt"}
               [] Fam \in {"betads", "betav"} -> {"SeqInt", "Int"}
               [] Fam = "betadn" -> {"Int"}
               [] Fam = "betaw" -> {"SeqTrk", "SeqJet"}
               [] Fam \in {"agg", "aggs"} -> {"SeqInt", "Int"}
               [] Fam = "helper" -> {"SeqInt", "SeqJet"}
               [] Fam = "e2e" -> {"SeqInt", "SeqJet", "SeqEvt"}
               [] Fam = "e2et" -> {"SeqInt"}
               [] Fam = "e2el" -> {"SeqInt", "SeqJet", "SeqTrk"}
               [] Fam = "e2eb" -> {"SeqSeqSeqInt", "SeqSeqInt"}
               [] Fam = "methb" -> {"SeqInt", "Int"}
               [] Fam \in {"meth", "md", "md1"} -> {"SeqInt", "SeqJet", "SeqEvt", "SeqTrk", "Int"}
               [] OTHER -> {"SeqInt", "SeqJet", "Int"}
Roots == {Hole(s, Budget, <<>>, <<>>) : s \in RootSorts}

=============================================================================
