------------------------------ MODULE GenExpr ------------------------------
(***************************************************************************)
(* C10 generator: untyped single-parameter lambdas over the whole Python   *)
(* expression grammar the library claims to pass through, as derivations   *)
(* (leftmost hole expanded by one production per step), bounded by a       *)
(* budget of constructs.  hole.p = lambda parameters in scope.             *)
(***************************************************************************)
EXTENDS Terms, Json, IOUtils

CONSTANTS Budget, Rand
VARIABLE t

Hole(b, sc) == T("hole", "", b, sc, <<>>)
FloatC(x) == T("float", x, 0, <<>>, <<>>)
EllipsisC == T("const", "Ellipsis", 0, <<>>, <<>>)

Split2(r) == {<<i, r - i>> : i \in 0..r}
Split3(r) == {<<q[1], q[2], r - q[1] - q[2]>> : q \in {w \in (0..r) \X (0..r) : w[1] + w[2] <= r}}

(* g is a free name (not a parameter, not a capture when the lambda is given as text / ast) *)
Leaves(sc) == {Name(sc[i]) : i \in 1..Len(sc)} \cup {Attr(Name(sc[Len(sc)]), "a"), IntC(1), StrC("s"), Name("g")}

NonLeaf(h) ==
    LET b == h.n  sc == h.p  r == b - 1
        H(n) == Hole(n, sc)
    IN IF b = 0 THEN {} ELSE
       {BoolC(TRUE), FloatC("1.5"), NoneC, EllipsisC, IntC(0)} \cup
       {Attr(H(r), f) : f \in {"a", "value"}} \cup
       {Meth(H(r), "m", <<>>), Fn("f", <<H(r)>>), Fn("abs", <<H(r)>>), Fn("len", <<H(r)>>),
        CallK(Attr(Name("e"), "m"), <<>>, <<"kw">>, <<H(r)>>), Sub(H(r), Slice(IntC(1), Absent, Absent))} \cup
       {Meth(H(sp[1]), "m", <<H(sp[2])>>) : sp \in Split2(r)} \cup
       \* a method call whose receiver is a function name / a lambda literal (an odd but legal expression)
       {Meth(Name(fnm), "m", <<H(r)>>) : fnm \in {"len", "abs", "f"}} \cup
       {Meth(Lam1("j", Hole(sp[1], Append(sc, "j"))), "m", <<H(sp[2])>>) : sp \in Split2(r)} \cup
       {CallK(Name("f"), <<H(sp[1])>>, <<"kw">>, <<H(sp[2])>>) : sp \in Split2(r)} \cup
       {Sub(H(sp[1]), H(sp[2])) : sp \in Split2(r)} \cup
       {Sub(Tup(<<H(sp[1]), H(sp[2])>>), ix) : sp \in Split2(r),
            ix \in {IntC(0), IntC(1), IntC(2), StrC("x"), UnOp("-", IntC(1)), Name("e")}} \cup
       {UnOp(o, H(r)) : o \in {"-", "not", "~", "+"}} \cup
       {BinOp(o, H(sp[1]), H(sp[2])) : sp \in Split2(r), o \in {"+", "/"}} \cup
       {BoolOp(o, <<H(sp[1]), H(sp[2])>>) : sp \in Split2(r), o \in {"and", "or"}} \cup
       {Cmp(">", H(sp[1]), H(sp[2])) : sp \in Split2(r)} \cup
       {T("cmp", "", 0, <<"<", "<=">>, <<H(sp[1]), H(sp[2]), H(sp[3])>>) : sp \in Split3(r)} \cup
       {IfExp(H(sp[1]), H(sp[2]), H(sp[3])) : sp \in Split3(r)} \cup
       {Tup(<<H(r)>>)} \cup
       {T(kk, "", 0, <<>>, <<H(sp[1]), H(sp[2])>>) : sp \in Split2(r), kk \in {"tuple", "list"}} \cup
       {Dct(<<StrC(key), H(r)>>) : key \in {"a", "a b", "class", ""}} \cup
       {Dct(<<StrC("a"), H(sp[1]), StrC(k2), H(sp[2])>>) : sp \in Split2(r), k2 \in {"a", "b"}} \cup
       {Dct(<<IntC(1), H(r)>>)} \cup
       {Attr(Dct(<<StrC("a"), H(r)>>), f) : f \in {"a", "b", "zip"}} \cup
       {Sub(Dct(<<StrC("a"), H(r)>>), ky) : ky \in {StrC("a"), StrC("b"), Name("e")}} \cup
       \* methods of Python's own scalar types, on a literal / a comparison (the type IS known there, nothing func_adl types)
       {Meth(StrC("s"), "format", <<H(r)>>), Meth(IntC(1), "to_bytes", <<>>), Meth(StrC("s"), "upper", <<>>),
        Meth(Cmp(">", H(r), IntC(1)), "conjugate", <<>>)} \cup
       \* a key that is not hashable; a call whose function is itself a subscript (e.a[1](x), e.a[int](x))
       {Sub(Dct(<<StrC("a"), H(r)>>), Lst(<<StrC("a")>>))} \cup
       \* (the receiver is an untyped object: a parameter or an attribute of one; for a receiver of KNOWN type without such a
       \* property the library's AttributeError is pinned by the repository's own tests)
       {CallP(Sub(Attr(rc, "a"), ix), <<H(r)>>) :
            rc \in {Name(sc[i]) : i \in 1..Len(sc)} \cup {Attr(Name(sc[Len(sc)]), "value")}, ix \in {IntC(1), Name("int")}} \cup
       {Meth(H(sp[1]), "Select", <<Lam1("j", Hole(sp[2], Append(sc, "j")))>>) : sp \in Split2(r)} \cup
       {Fn("Where", <<H(sp[1]), Lam1("e", Hole(sp[2], Append(sc, "e")))>>) : sp \in Split2(r)}

Prods(h) == LET nl == NonLeaf(h) IN IF Rand /\ nl # {} THEN nl ELSE Leaves(h.p) \cup nl

RECURSIVE HasHole(_)
HasHole(u) == u.k = "hole" \/ \E i \in 1..Len(u.a) : u.k # "hole" /\ HasHole(u.a[i])

RECURSIVE Fill(_)
Fill(u) ==
    IF u.k = "hole" THEN Prods(u)
    ELSE IF \A i \in 1..Len(u.a) : ~HasHole(u.a[i]) THEN {}
    ELSE LET i == CHOOSE j \in 1..Len(u.a) : HasHole(u.a[j]) /\ \A m \in 1..(j - 1) : ~HasHole(u.a[m])
         IN {[u EXCEPT !.a[i] = c] : c \in Fill(u.a[i])}

Init == t = Lam1("e", Hole(Budget, <<"e">>))
Next == t' \in Fill(t)
Spec == Init /\ [][Next]_t

AppendOpt == [format |-> "TXT", charset |-> "UTF-8",
              openOptions |-> <<"WRITE", "CREATE", "APPEND">>]
Export == HasHole(t) \/ Serialize(ToJson(t) \o "\n", IOEnv.OUT_FILE, AppendOpt).exitValue = 0

=============================================================================
