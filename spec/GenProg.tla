------------------------------ MODULE GenProg ------------------------------
(* Derivation state machine over Grammar; every complete program is written *)
(* once (invariants are evaluated on distinct states only) to OUT_FILE.     *)
EXTENDS Grammar, Json, IOUtils

VARIABLE t
Init == t \in Roots
Next == t' \in Fill(t)
Spec == Init /\ [][Next]_t

AppendOpt == [format |-> "TXT", charset |-> "UTF-8",
              openOptions |-> <<"WRITE", "CREATE", "APPEND">>]
Export == HasHole(t) \/ Serialize(ToJson(t) \o "\n", IOEnv.OUT_FILE, AppendOpt).exitValue = 0
=============================================================================
