------------------------------ MODULE GenHash ------------------------------
(***************************************************************************)
(* C20 generator: base queries (Grammar derivations) and every single edit *)
(* of each (operator, name, constant value, constant type, argument order, *)
(* nesting).  State machine: derive a base program, then take one edit.    *)
(***************************************************************************)
EXTENDS Grammar, Json, IOUtils

VARIABLES t, d
vars == <<t, d>>

RECURSIVE Positions(_, _)
Positions(u, here) == {here} \cup UNION {Positions(u.a[i], Append(here, i)) : i \in 1..Len(u.a)}

OtherOp(f) == CASE f = "Select" -> {"Where", "SelectMany"}
                [] f = "Where" -> {"Select"}
                [] f = "SelectMany" -> {"Select"}
                [] f = "First" -> {"Count"}
                [] f = "Count" -> {"First", "len"}
                [] OTHER -> {}

(* all single edits of the node u itself (children untouched unless swapped / nested) *)
LocalEdits(u) ==
    CASE u.k = "name" -> (IF u.s \in OperatorNames
                          THEN {[u EXCEPT !.s = f] : f \in OtherOp(u.s)}
                          ELSE {[u EXCEPT !.s = u.s \o "2"]})
      \* (é, è: Latin-1; π: beyond Latin-1; a non-BMP letter)
      [] u.k = "attr" -> {[u EXCEPT !.s = u.s \o "2"], [u EXCEPT !.s = u.s \o "é"], [u EXCEPT !.s = u.s \o "è"],
                          [u EXCEPT !.s = u.s \o "π"], [u EXCEPT !.s = u.s \o "ρ"]}
      [] u.k = "int"  -> {[u EXCEPT !.n = u.n + 1],                       \* value
                          [u EXCEPT !.n = -(u.n + 1)],                    \* a negative number BY VALUE (not -(n))
                          T("bool", "", IF u.n = 0 THEN 0 ELSE 1, <<>>, <<>>),   \* type: 1 -> True
                          T("str", ToString(u.n), 0, <<>>, <<>>),         \* type: 1 -> '1'
                          T("float", ToString(u.n) \o ".0", 0, <<>>, <<>>)}  \* type: 1 -> 1.0
      [] u.k = "bool" -> {[u EXCEPT !.n = 1 - u.n], IntC(u.n)}
      [] u.k = "str"  -> {[u EXCEPT !.s = u.s \o "x"], [u EXCEPT !.s = u.s \o "\"'"],
                          [u EXCEPT !.s = u.s \o "é"], [u EXCEPT !.s = u.s \o "è"], [u EXCEPT !.s = u.s \o "?"],
                          [u EXCEPT !.s = u.s \o "π"], [u EXCEPT !.s = u.s \o "ρ"], [u EXCEPT !.s = u.s \o "𝛑"],
                          \* the same text composed (U+00E9, above) and decomposed (e + U+0301), Kelvin sign (U+212A) vs K
                          [u EXCEPT !.s = u.s \o "é"], [u EXCEPT !.s = u.s \o "K"], [u EXCEPT !.s = u.s \o "K"]}
      [] u.k = "binop" -> {[u EXCEPT !.s = IF u.s = "+" THEN "-" ELSE "+"]} \cup
                          (IF u.a[1] # u.a[2] THEN {[u EXCEPT !.a = <<u.a[2], u.a[1]>>]} ELSE {})
      [] u.k = "cmp"  -> {[u EXCEPT !.p = <<IF u.p[1] = ">" THEN ">=" ELSE ">">>]} \cup
                          (IF u.a[1] # u.a[2] THEN {[u EXCEPT !.a = <<u.a[2], u.a[1]>>]} ELSE {})
      [] u.k = "lam"  -> {RenameParam(u, u.p[1], u.p[1] \o "2")}          \* alpha-renaming changes structure
      [] u.k = "tuple" -> {Lst(u.a)} \cup (IF Len(u.a) = 2 /\ u.a[1] # u.a[2] THEN {Tup(<<u.a[2], u.a[1]>>)} ELSE {})
      [] u.k = "call" -> (IF IsFn(u) /\ u.n = 2 /\ u.a[3].k = "lam"
                          THEN {Fn(u.a[1].s, <<Fn(u.a[1].s, <<u.a[2], u.a[3]>>), u.a[3]>>)}   \* nesting
                          ELSE {})
      [] OTHER -> {}

Edits(u) == UNION {{ReplaceAt(u, pos, e) : e \in LocalEdits(At(u, pos))} : pos \in Positions(u, <<>>)}

Init == t \in Roots /\ d = 0
Next == \/ HasHole(t) /\ t' \in Fill(t) /\ d' = d
        \/ ~HasHole(t) /\ d = 0 /\ t' \in Edits(t) /\ d' = 1
Spec == Init /\ [][Next]_vars

AppendOpt == [format |-> "TXT", charset |-> "UTF-8",
              openOptions |-> <<"WRITE", "CREATE", "APPEND">>]
Export == HasHole(t) \/
          Serialize(ToJson([t |-> t, d |-> d]) \o "\n", IOEnv.OUT_FILE, AppendOpt).exitValue = 0
=============================================================================
