---------------------------- MODULE CaptureDefs ----------------------------
(* Python name resolution and the expected frozen lambda for C04 (pure definitions, shared by the *)
(* Capture state machine and by TraceCapture).                                                   *)
EXTENDS Passes

Deleted == T("deleted", "", 0, <<>>, <<>>)
NT == T("nontransportable", "", 0, <<>>, <<>>)       \* e.g. a list object: cannot be sent as a literal
Vals == {IntC(41), StrC("s"), NT}
Slots == {"v", "G", "C", "D", "M", "wc", "wg"}

EV == Name("e")
KC == Attr(Name("K"), "C")
KD == Attr(Attr(Name("K"), "Inner"), "D")
AM == Attr(Name("aux"), "M")
Shapes == {"S1", "S2", "S3", "S4", "S5", "S6", "S7", "S9", "S10", "S11", "S12", "S13", "S14", "S15", "S16", "S17", "S18", "S19", "S20", "S21", "S22", "S23"}
ShapeTerm(sh) ==
    CASE sh = "S1"  -> Lam1("e", Meth(EV, "f", <<Name("v")>>))
      [] sh = "S2"  -> Lam1("e", Meth(EV, "f", <<Name("G")>>))
      [] sh = "S3"  -> Lam1("e", BinOp("+", Meth(EV, "f", <<KC>>), Meth(EV, "g", <<KD>>)))
      [] sh = "S4"  -> Lam1("e", Meth(EV, "f", <<AM>>))
      [] sh = "S5"  -> Lam1("e", Meth(Attr(EV, "jets"), "Select", <<Lam1("v", BinOp("+", Attr(Name("v"), "pt"), Name("G")))>>))
      [] sh = "S6"  -> Lam1("e", Meth(Attr(EV, "jets"), "Select", <<Lam1("j", BinOp("+", Attr(Name("j"), "pt"), Name("v")))>>))
      [] sh = "S7"  -> Lam1("e", Comp("list", "G", Attr(Name("G"), "pt"), Attr(EV, "jets"), <<>>))
      [] sh = "S9"  -> Lam1("G", BinOp("+", Attr(Name("G"), "pt"), Name("v")))
      [] sh = "S10" -> Lam1("e", Meth(EV, "f", <<Name("w")>>))
      [] sh = "S11" -> Lam1("e", Meth(EV, "f", <<Name("v"), Name("v")>>))
      \* own parameter named like a global, re-used by a nested lambda / comprehension, then used again
      [] sh = "S13" -> Lam1("G", Tup(<<Meth(Attr(Name("G"), "jets"), "Select", <<Lam1("G", Attr(Name("G"), "pt"))>>),
                                      BinOp("+", Name("G"), Name("v"))>>))
      \* captured names used only two lambdas deep
      [] sh = "S15" -> Lam1("e", Meth(Attr(EV, "jets"), "Select",
                            <<Lam1("j", Meth(Attr(Name("j"), "trks"), "Where",
                                            <<Lam1("t", Cmp(">", Attr(Name("t"), "pt"), Name("G")))>>))>>))
      [] sh = "S16" -> Lam1("e", Meth(Attr(EV, "jets"), "Select",
                            <<Lam1("j", Meth(Attr(Name("j"), "trks"), "Select",
                                            <<Lam1("t", BinOp("+", BinOp("+", Attr(Name("t"), "pt"), Name("v")), KC))>>))>>))
      \* S17 is a one-line def (the SAME function object at every Build), S1 is a fresh lambda each time
      [] sh = "S17" -> Lam1("e", BinOp("+", Meth(EV, "f", <<Name("v")>>), Name("G")))
      \* a parameter-less called lambda before a bare use of the own parameter (named like a global)
      [] sh = "S18" -> Lam1("G", Tup(<<CallP(Lam(<<>>, IntC(3)), <<>>), Name("G"), Name("v")>>))
      [] sh = "S19" -> Lam1("G", Tup(<<CallP(Lam(<<>>, Attr(Name("G"), "pt")), <<>>), BinOp("+", Name("G"), Name("v"))>>))
      \* a keyword-only parameter named like a global (it hides the global inside the called lambda; the call stays a call)
      [] sh = "S20" -> Lam1("e", CallK(LamG("po0ko1va0kw0", 0, <<"j", "G">>, BinOp("+", Attr(Name("j"), "pt"), Name("G")), <<>>, <<Absent>>),
                                       <<EV>>, <<"G">>, <<Name("v")>>))
      \* a default value is evaluated in the ENCLOSING scope: lambda j, G=G: ... captures the global in the default only
      [] sh = "S21" -> Lam1("e", CallP(T("lam", "", 1, <<"j", "G">>, <<BinOp("+", Attr(Name("j"), "pt"), Name("G")), Name("G")>>), <<EV>>))
      \* the iterable of a comprehension is evaluated in the enclosing scope: [G.pt for G in e.f(G)]
      [] sh = "S22" -> Lam1("e", Comp("list", "G", Attr(Name("G"), "pt"), Meth(EV, "f", <<Name("G")>>), <<>>))
      \* a default value that is itself a lambda whose parameter is named like a global the body of the outer lambda uses
      [] sh = "S23" -> Lam1("e", CallP(T("lam", "", 1, <<"j", "c">>,
                                         <<BinOp("+", CallP(Name("c"), <<Name("j")>>), Name("G")),
                                           Lam1("G", BinOp("*", Name("G"), IntC(2)))>>), <<EV>>))
      [] sh = "S14" -> Lam1("G", Tup(<<Comp("list", "G", Attr(Name("G"), "pt"), Attr(Name("G"), "jets"), <<>>),
                                      Name("G")>>))
      [] OTHER      -> Lam1("e", Comp("list", "j", BinOp("+", Attr(Name("j"), "pt"), Name("G")), Attr(EV, "jets"),
                                      <<Cmp(">", Attr(Name("j"), "eta"), Name("v"))>>))

(* replace the attribute chains that name class constants / module attributes *)
RECURSIVE FreezeAttrs(_, _)
FreezeAttrs(t, snap) ==
    IF t = KC THEN snap.C ELSE IF t = KD THEN snap.D ELSE IF t = AM THEN snap.M
    ELSE [t EXCEPT !.a = [i \in 1..Len(t.a) |-> FreezeAttrs(t.a[i], snap)]]
(* ... and the free names (Subst stops at binders that re-bind the name); the closure wins for w *)
Freeze(t, snap) ==
    LET body == FreezeAttrs(t.a[1], snap)
        ps == Range(t.p)
        s1 == IF "v" \in ps THEN body ELSE Subst(body, "v", snap.v)
        s2 == IF "G" \in ps THEN s1 ELSE Subst(s1, "G", snap.G)
        s3 == IF "w" \in ps THEN s2 ELSE Subst(s2, "w", snap.wc)
    IN [t EXCEPT !.a = <<s3>>]
(* called lambdas in the body are resolved when the query is built *)
ShapeOut(sh) ==
    CASE sh = "S18" -> Lam1("G", Tup(<<IntC(3), Name("G"), Name("v")>>))
      [] sh = "S19" -> Lam1("G", Tup(<<Attr(Name("G"), "pt"), BinOp("+", Name("G"), Name("v"))>>))
      [] OTHER -> ShapeTerm(sh)
ExpectedLam(sh, snap) == LowerComp(Freeze(ShapeOut(sh), snap))
(* the values actually captured by the shape *)
Captured(sh, snap) ==
    LET t == ShapeTerm(sh)  fv == FV(t)  subs == SubTerms(t) IN
    (IF "v" \in fv THEN {snap.v} ELSE {}) \cup (IF "G" \in fv THEN {snap.G} ELSE {})
      \cup (IF "w" \in fv THEN {snap.wc} ELSE {}) \cup (IF KC \in subs THEN {snap.C} ELSE {})
      \cup (IF KD \in subs THEN {snap.D} ELSE {}) \cup (IF AM \in subs THEN {snap.M} ELSE {})
(* a closure variable deleted (del v) before the call: Python itself could not evaluate the lambda - the call is refused, *)
(* never answered with a same-named value from somewhere else                                                         *)
ClosureDeleted(sh, snap) == snap.v = Deleted /\ "v" \in FV(ShapeTerm(sh))
Refused(sh, snap) == NT \in Captured(sh, snap) \/ ClosureDeleted(sh, snap)
(* (a deleted GLOBAL: such builds are not part of the histories) *)
UsesDeleted(sh, snap) == snap.G = Deleted /\ "G" \in FV(ShapeTerm(sh))

=============================================================================
