----------------------------- MODULE TraceEmbed -----------------------------
(* record: [id, entry, val (the value handed to the library, as generated), lit (term of the literal *)
(*          argument node in the emitted query, or absent), exc]                                     *)
EXTENDS Embed, Json, IOUtils
Trace == ndJsonDeserialize(IOEnv.IN_FILE)
AppendOpt == [format |-> "TXT", charset |-> "UTF-8",
              openOptions |-> <<"WRITE", "CREATE", "APPEND">>]
Verdict(id, vd, clause, nontriv) == [id |-> id, v |-> vd, clause |-> clause, nontrivial |-> nontriv]

(* a value the library is entitled to refuse at a lambda entry point *)
Judge(r) ==
    LET want == Expected(r.entry, r.val)
        hard == r.val.vt = "str" /\ \E i \in 1..Len(r.val.cs) : r.val.cs[i] \in {"'", "\"", "\\", "\n", "é"}
    IN IF InLambda(r.entry) /\ ~Transportable(r.val) THEN
           IF r.exc = "ValueError" THEN Verdict(r.id, "ACCEPT", "refused", TRUE)
           ELSE Verdict(r.id, "REJECT", "NotRefused", TRUE)
       ELSE IF r.exc # "" THEN Verdict(r.id, "REJECT", "Raised", TRUE)
       ELSE IF LitEval(r.lit) = Bad THEN Verdict(r.id, "REJECT", "NotALiteral", TRUE)
       ELSE IF LitEval(r.lit) # Norm(want) THEN Verdict(r.id, "REJECT", "ValueChanged", TRUE)
       ELSE Verdict(r.id, "ACCEPT", "", hard \/ r.val.items # <<>>)
VARIABLE l
Init == l = 1
Next == /\ l <= Len(Trace) /\ l' = l + 1
        /\ Serialize(ToJson(Judge(Trace[l])) \o "\n", IOEnv.OUT_FILE, AppendOpt).exitValue = 0
Spec == Init /\ [][Next]_l
Accepted == TLCGet("stats").diameter - 1 = Len(Trace)
=============================================================================
