------------------------------ MODULE GenTypes ------------------------------
(***************************************************************************)
(* C08 generator: the type follower as a transition system.  A state is a  *)
(* chain of committed stream operators plus the lambda body being built;   *)
(* one step either extends the body by one typing rule that applies to its *)
(* current type (method of the class or of a base class, collection        *)
(* operator on an iterable, subscript, arithmetic, comparison, boolean,    *)
(* conditional, dictionary / tuple packaging and access) or commits the    *)
(* body as Select / SelectMany / Where.  Well-typedness is by construction.*)
(***************************************************************************)
EXTENDS TypeFollow, Json, IOUtils

CONSTANTS MaxOps,     \* stream operators in a chain
          MaxExt      \* typing-rule applications in the whole chain

VARIABLES ops,        \* committed: Seq of [op, lam]
          itemT,      \* item type of the current stream
          body,       \* lambda body under construction (parameter "e")
          used        \* rule applications so far
vars == <<ops, itemT, body, used>>

FloatC(x) == T("float", x, 0, <<>>, <<>>)
E0 == Name("e")

RECURSIVE MethodNames(_)
MethodNames(ty) ==
    IF ty.k # "ty" \/ ty.s \notin ClassNames THEN {}
    ELSE {ClassOf(ty.s).methods[i].name : i \in 1..Len(ClassOf(ty.s).methods)}
           \cup (IF BaseOf(ty).k = "noann" THEN {} ELSE MethodNames(BaseOf(ty)))

(* bodies of lambdas handed to a collection operator, over an element of type el *)
Inner(el, v) ==
    LET x == Name(v) IN
    {x} \cup {Meth(x, m, <<>>) : m \in MethodNames(el)}
        \cup (IF "pt" \in MethodNames(el) THEN {Cmp(">", Meth(x, "pt", <<>>), IntC(1)),
                                                 BinOp("+", Meth(x, "pt", <<>>), IntC(1))} ELSE {})
        \cup (IF "trks" \in MethodNames(el)
              THEN {Meth(Meth(x, "trks", <<>>), "Select", <<Lam1("k", Meth(Name("k"), "pt", <<>>))>>),
                    Meth(Meth(x, "trks", <<>>), "Count", <<>>)} ELSE {})
        \cup (IF el \in {IntT, FloatT} THEN {BinOp("+", x, IntC(1)), Cmp(">", x, IntC(1))} ELSE {})

FieldNames(ty) == IF ty.k # "ty" \/ ty.s \notin ClassNames THEN {}
                  ELSE {ClassOf(ty.s).fields[i].name : i \in 1..Len(ClassOf(ty.s).fields)}
Ext(b, ty) ==
    {Meth(b, m, <<>>) : m \in MethodNames(ty)}
    \cup {Attr(b, f) : f \in FieldNames(ty)}
    \cup (IF IsIterableT(ty) THEN
            {Meth(b, "First", <<>>), Meth(b, "Count", <<>>), Meth(b, "Second", <<>>), Sub(b, IntC(0)),
             Fn("len", <<b>>)}
            \cup {Meth(b, "Select", <<Lam1("j", ib)>>) : ib \in Inner(ElemType(ty), "j")}
            \* the inner lambda may re-use the name of the enclosing lambda's parameter
            \cup {Meth(b, "Select", <<Lam1("e", ib)>>) : ib \in Inner(ElemType(ty), "e")}
            \cup {Meth(b, "Where", <<Lam1("j", ib)>>) :
                     ib \in {i2 \in Inner(ElemType(ty), "j") : TypeOf(i2, ("j" :> ElemType(ty))) = BoolT}}
            \cup {Meth(b, "SelectMany", <<Lam1("j", ib)>>) :
                     ib \in {i2 \in Inner(ElemType(ty), "j") : IsIterableT(TypeOf(i2, ("j" :> ElemType(ty))))}}
          ELSE {})
    \cup (IF ty \in {IntT, FloatT} THEN
            {BinOp("+", b, IntC(1)), BinOp("/", b, IntC(2)), BinOp("*", b, FloatC("1.5")),
             Cmp(">", b, IntC(1)), UnOp("-", b), Fn("abs", <<b>>)}
          ELSE {})
    \cup (IF ty = BoolT THEN
            {BoolOp("and", <<b, BoolC(TRUE)>>), UnOp("not", b), IfExp(b, IntC(1), FloatC("2.5")),
             IfExp(b, IntC(1), IntC(2))}
          ELSE {})
    \* the same parameterised type by two routes: annotation Iterable[Jet] and Box[Jet].items() -> Iterable[T]
    \cup (IF ty = Iter(Ty0("Jet")) /\ itemT = Ty0("Evt")
          THEN {IfExp(Meth(E0, "flag", <<>>), b, Meth(Meth(E0, "box", <<>>), "items", <<>>)),
                IfExp(Meth(E0, "flag", <<>>), Meth(Meth(E0, "jb", <<>>), "items", <<>>), b)}
          ELSE {})
    \cup (IF ty = Ty0("Jet") /\ itemT = Ty0("Evt")
          THEN {IfExp(Meth(E0, "flag", <<>>), b, Meth(Meth(E0, "box", <<>>), "item", <<>>))} ELSE {})
    \cup {Attr(Dct(<<StrC("k"), b, StrC("n"), IntC(1)>>), "k"), Sub(Dct(<<StrC("k"), b>>), StrC("k")),
          Sub(Tup(<<IntC(1), b>>), IntC(1))}

CurT == TypeOf(body, ("e" :> itemT))

Init == /\ ops = <<>> /\ itemT = Ty0("Evt") /\ body = E0 /\ used = 0
        /\ ndJsonSerialize(IOEnv.UNIVERSE_FILE, Universe)      \* the class model, for the harness
Extend == /\ used < MaxExt
          /\ body' \in Ext(body, CurT)
          /\ used' = used + 1
          /\ UNCHANGED <<ops, itemT>>
Commit(op) ==
    /\ Len(ops) < MaxOps
    /\ (IF Len(ops) = 0 THEN TRUE ELSE ops[Len(ops)].res = "ok")
    /\ op = "SelectMany" => IsIterableT(CurT)
    /\ LET lam == Lam1("e", body)
           r == StreamResult(op, itemT, lam)
       IN /\ ops' = Append(ops, [op |-> op, lam |-> lam, res |-> r[1], ty |-> r[2]])
          /\ itemT' = r[2]
    /\ body' = E0
    /\ UNCHANGED used
Next == Extend \/ \E op \in {"Select", "SelectMany", "Where"} : Commit(op)
Spec == Init /\ [][Next]_vars

AppendOpt == [format |-> "TXT", charset |-> "UTF-8",
              openOptions |-> <<"WRITE", "CREATE", "APPEND">>]
(* a case = a chain just committed *)
Export == (ops = <<>> \/ body # E0) \/
          Serialize(ToJson(ops) \o "\n", IOEnv.OUT_FILE, AppendOpt).exitValue = 0
=============================================================================
