---------------------------- MODULE TraceRegistry ----------------------------
(***************************************************************************)
(* Trace validation of recorded registry histories against Registry.tla.   *)
(* record: [tid, step, a (the action), obs] where obs = the emitted call   *)
(* (a term) for BuildFn, the observed type name for BuildSecond / BuildAbs, *)
(* absent otherwise; exc = exception class or "".                           *)
(* The ghost registry is re-computed from the actions with the             *)
(* specification's own operators (Emit, SecondType); the verdict never     *)
(* reads what the implementation stores.                                   *)
(***************************************************************************)
EXTENDS RegistryDefs, Json, IOUtils

Trace == ndJsonDeserialize(IOEnv.IN_FILE)
AppendOpt == [format |-> "TXT", charset |-> "UTF-8",
              openOptions |-> <<"WRITE", "CREATE", "APPEND">>]
VARIABLES l, greg, gcoll
tvars == <<l, greg, gcoll>>

NoReg == [n \in FnNames |-> 0]
Clauses(r, rg, cl) ==
    LET a == r.a IN
    (IF r.exc # "" THEN <<"Raised">> ELSE <<>>) \o
    (IF a.act = "BuildFn" /\ r.exc = "" /\ r.obs # Emit(a.nm, rg[a.nm], a.v)
        THEN <<IF rg[a.nm] = 0 THEN "UnregisteredChanged" ELSE "NotCurrentSignature">> ELSE <<>>) \o
    (IF a.act = "BuildSecond" /\ r.exc = "" /\ r.obs # StrC(SecondType(cl)) THEN <<"CollectionOperator">> ELSE <<>>) \o
    (IF a.act = "BuildAbs" /\ r.exc = "" /\ r.obs # StrC("float") THEN <<"BuiltinLost">> ELSE <<>>)

TInit == l = 1 /\ greg = NoReg /\ gcoll = FALSE
TNext ==
    /\ l <= Len(Trace)
    /\ LET r == Trace[l]
           rg0 == IF r.step = 1 THEN NoReg ELSE greg          \* a new history starts from a reset process
           cl0 == IF r.step = 1 THEN FALSE ELSE gcoll
           a == r.a
           rg == CASE a.act = "Register" -> [rg0 EXCEPT ![a.nm] = a.v]
                   [] a.act = "Reset" -> NoReg
                   [] OTHER -> rg0
           cl == CASE a.act = "RegisterColl" -> TRUE [] a.act = "Reset" -> FALSE [] OTHER -> cl0
           cs == Clauses(r, rg, cl)
       IN /\ greg' = rg /\ gcoll' = cl
          /\ Serialize(ToJson([tid |-> r.tid, step |-> r.step, ok |-> cs = <<>>, clauses |-> cs]) \o "\n",
                       IOEnv.OUT_FILE, AppendOpt).exitValue = 0
    /\ l' = l + 1
TSpec == TInit /\ [][TNext]_tvars
Accepted == TLCGet("stats").diameter - 1 = Len(Trace)
=============================================================================
