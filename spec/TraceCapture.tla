---------------------------- MODULE TraceCapture ----------------------------
(* record: [tid, step, a (action), emitted: Seq over built queries of [res, lam]] ;           *)
(*   res = "ok" | "ValueError" | other exception class (the Build raised)                      *)
(* The trace spec replays the actions on Capture's own state (env, built) and compares, after *)
(* EVERY step, every built query with Expected(shape, snapshot at its Build).                 *)
EXTENDS CaptureDefs, Json, IOUtils
Trace == ndJsonDeserialize(IOEnv.IN_FILE)
AppendOpt == [format |-> "TXT", charset |-> "UTF-8",
              openOptions |-> <<"WRITE", "CREATE", "APPEND">>]
VARIABLES l, e2, b2
tv == <<l, e2, b2>>
Env0 == [v |-> IntC(1), G |-> IntC(2), C |-> IntC(3), D |-> IntC(4), M |-> IntC(5), wc |-> IntC(6), wg |-> IntC(7)]
TInit == l = 1 /\ e2 = Env0 /\ b2 = <<>>
ApplyAct(a, en) == CASE a.act = "Rebind" -> [en EXCEPT ![a.slot] = a.val]
                  [] a.act = "DelGlobal" -> [en EXCEPT !.G = Deleted]
                  [] a.act = "DelClosure" -> [en EXCEPT !.v = Deleted]
                  [] OTHER -> en
Clauses(r, bs) ==
    LET count == Len(r.emitted) = Len(bs)
        bad == {i \in 1..Len(bs) :
                  i <= Len(r.emitted) /\
                  IF bs[i].refused THEN r.emitted[i].res # "ValueError"
                  ELSE r.emitted[i].res # "ok" \/ r.emitted[i].lam # ExpectedLam(bs[i].shape, bs[i].snap)}
        newest == Len(bs)
    IN (IF count THEN <<>> ELSE <<"Count">>)
       \o (IF \E i \in bad : bs[i].refused THEN <<"NotRefused">> ELSE <<>>)
       \o (IF \E i \in bad : ~bs[i].refused /\ r.emitted[i].res # "ok" THEN <<"SpuriousError">> ELSE <<>>)
       \o (IF \E i \in bad : ~bs[i].refused /\ r.emitted[i].res = "ok" /\ i = newest /\ r.a.act = "Build"
           THEN <<"WrongAtBuild">> ELSE <<>>)
       \o (IF \E i \in bad : ~bs[i].refused /\ r.emitted[i].res = "ok" /\ ~(i = newest /\ r.a.act = "Build")
           THEN <<"ChangedLater">> ELSE <<>>)
TNext == /\ l <= Len(Trace)
         /\ LET r == Trace[l]
                en == IF r.step = 1 THEN Env0 ELSE e2
                bs == IF r.step = 1 THEN <<>> ELSE b2
                en2 == ApplyAct(r.a, en)
                bs2 == IF r.a.act = "Build"
                       THEN Append(bs, [shape |-> r.a.sh, snap |-> en, refused |-> Refused(r.a.sh, en)]) ELSE bs
                cl == Clauses(r, bs2)
            IN /\ e2' = en2 /\ b2' = bs2
               /\ Serialize(ToJson([tid |-> r.tid, step |-> r.step, ok |-> cl = <<>>, clauses |-> cl]) \o "\n",
                            IOEnv.OUT_FILE, AppendOpt).exitValue = 0
         /\ l' = l + 1
TSpec == TInit /\ [][TNext]_tv
Accepted == TLCGet("stats").diameter - 1 = Len(Trace)
=============================================================================
