----------------------------- MODULE TraceTyped -----------------------------
(***************************************************************************)
(* Trace validation of recorded operator calls (Select / SelectMany /      *)
(* Where on real streams) against TypeFollow.tla.                          *)
(* record (untyped, C10): [id, kind = "untyped", op, in, out, exc]         *)
(***************************************************************************)
EXTENDS TypeFollow, Json, IOUtils

Trace == ndJsonDeserialize(IOEnv.IN_FILE)
AppendOpt == [format |-> "TXT", charset |-> "UTF-8",
              openOptions |-> <<"WRITE", "CREATE", "APPEND">>]
Verdict(id, v, clause, nontriv, info) ==
    [id |-> id, v |-> v, clause |-> clause, nontrivial |-> nontriv, info |-> info]

JudgeUntyped(r) ==
    LET allowed == AllowedUntyped(r.op, r.in)
        refusable == "ValueError" \in allowed
    IN IF r.exc = "" THEN
           IF r.out = r.in THEN Verdict(r.id, "ACCEPT", "unchanged", ~refusable, "")
           ELSE Verdict(r.id, "REJECT", "Changed", TRUE, "")
       ELSE IF r.exc = "ValueError" THEN
           IF refusable THEN Verdict(r.id, "ACCEPT", "refused", FALSE, "")
           ELSE Verdict(r.id, "REJECT", "SpuriousRefusal", TRUE, r.exc)
       ELSE Verdict(r.id, "REJECT", "InternalError", TRUE, r.exc)

(* C07 record: [id, kind = "call", sig, shape, mname, out (emitted lambda), exc] *)
JudgeCall(r) ==
    LET miss == Missing(r.sig, r.shape) IN
    IF miss THEN
        IF r.exc = "ValueError" THEN Verdict(r.id, "ACCEPT", "missing-refused", TRUE, "")
        ELSE Verdict(r.id, "REJECT", "MissingNotRefused", TRUE, r.exc)
    ELSE IF r.exc # "" THEN Verdict(r.id, "REJECT", "Raised", TRUE, r.exc)
    ELSE LET calls == {cl2 \in CallsOf(r.out, r.mname) : ~(CallArgs(cl2) = <<IntC(99)>> /\ cl2.p = <<>>)}
                      \* (a same-named method of another class, normalised to its own default 99, is not the site)
             want == Normalized(r.sig, r.shape)
             nontriv == r.shape.kws # <<>> \/ r.shape.npos < r.sig.n
         IN IF calls = {} THEN Verdict(r.id, "REJECT", "CallSiteCount", nontriv, "")
            \* (a context may write the same call site twice: every occurrence must be normalised)
            ELSE IF \E cl \in calls : cl.p # <<>> THEN Verdict(r.id, "REJECT", "KeywordLeft", nontriv, "")
                 ELSE IF \E cl \in calls : CallArgs(cl) # want THEN Verdict(r.id, "REJECT", "Arguments", nontriv, "")
                 \* (when the case's own method is NAMED like an operator, its arguments are the normalised ones judged above)
                 ELSE IF r.mname \notin {"First", "Count", "Select", "Where", "SelectMany"} /\ ~OperatorsUntouched(r.out)
                      THEN Verdict(r.id, "REJECT", "OperatorArgsChanged", nontriv, "")
                 ELSE Verdict(r.id, "ACCEPT", "", nontriv, "")

(* C08 record: [id, kind = "types", ops: Seq([op, lam]), obs: Seq([res, ty])] -- one entry per stage; *)
(* res = "ok" | exception class; ty = observed item type as a type term                                *)
RECURSIVE StageCheck(_, _, _, _)
StageCheck(r, i, itemT, acc) ==
    IF i > Len(r.ops) THEN acc
    ELSE LET want == StreamResult(r.ops[i].op, itemT, r.ops[i].lam)
             got == r.obs[i]
         IN IF want[1] = "ValueError" THEN
                (IF got.res = "ValueError" THEN acc ELSE Append(acc, <<i, "WhereNotRefused">>))
            ELSE IF got.res # "ok" THEN Append(acc, <<i, "Raised">>)
            ELSE IF got.ty # want[2] THEN Append(acc, <<i, "ItemType">>)
            ELSE StageCheck(r, i + 1, want[2], acc)
JudgeTypes(r) ==
    LET bad == StageCheck(r, 1, Ty0("Evt"), <<>>) IN
    IF bad = <<>> THEN Verdict(r.id, "ACCEPT", "", TRUE, "")
    ELSE Verdict(r.id, "REJECT", bad[1][2], TRUE, ToString(bad[1][1]))
SpecTypes(r) == LET RECURSIVE Go(_, _)
                    Go(i, itemT) == IF i > Len(r.ops) THEN <<>>
                                    ELSE LET w == StreamResult(r.ops[i].op, itemT, r.ops[i].lam) IN
                                         <<[res |-> w[1], ty |-> w[2]]>> \o Go(i + 1, w[2])
                IN Go(1, Ty0("Evt"))

(* C09 record: [id, kind = "callbacks", cs (the case), fired: Seq([kind, site]),                      *)
(*   upstream: Seq over sites of Seq([kind, site]) = MetaData found on the source chain of the stream   *)
(*   operator whose lambda contains that site, calls: Seq over sites of the emitted call term (or absent)]*)
IndexIn(sq, x) == IF \E i \in 1..Len(sq) : sq[i] = x
                  THEN CHOOSE i \in 1..Len(sq) : sq[i] = x /\ \A j \in 1..(i - 1) : sq[j] # x ELSE 0
CountIn(sq, x) == Cardinality({i \in 1..Len(sq) : sq[i] = x})
JudgeCallbacks(r) ==
    LET cs == r.cs
        planned == PlannedPairs(cs)
        fired == [i \in 1..Len(r.fired) |-> <<r.fired[i].kind, r.fired[i].site>>]
        sites == Sites(cs)
        kinds == CbKinds(cs.pl)
    IN IF r.exc # "" THEN Verdict(r.id, "REJECT", "Raised", TRUE, r.exc)
       ELSE IF \E i \in 1..Len(fired) : fired[i] \notin planned THEN
            Verdict(r.id, "REJECT", "FiredForAbsentSite", TRUE, "")
       ELSE IF \E pp \in planned : CountIn(fired, pp) < SitesWith(cs, pp[2]) THEN Verdict(r.id, "REJECT", "NotFired", TRUE, "")
       ELSE IF \E pp \in planned : CountIn(fired, pp) > SitesWith(cs, pp[2]) THEN Verdict(r.id, "REJECT", "FiredTwice", TRUE, "")
       ELSE IF cs.pl = "both" /\ \E i \in 1..Len(sites) :
                  IndexIn(fired, <<"class", sites[i]>>) > IndexIn(fired, <<"method", sites[i]>>) THEN
            Verdict(r.id, "REJECT", "ClassAfterMethod", TRUE, "")
       ELSE IF \E i \in 1..Len(sites) : \E j \in 1..Len(kinds) :
                  ~\E u \in 1..Len(r.upstream[i]) :
                      r.upstream[i][u].kind = kinds[j] /\ r.upstream[i][u].site = sites[i] THEN
            Verdict(r.id, "REJECT", "MetaDataNotUpstream", TRUE, "")
       ELSE IF \E i \in 1..Len(sites) :
                  \/ r.calls[i].k # "call"
                  \/ ~(IsMethOf(r.calls[i], EmittedNameAt(cs, i)) \/ IsCallOf(r.calls[i], EmittedNameAt(cs, i)))
                  \/ r.calls[i].n < 1 \/ r.calls[i].a[2] # IntC(sites[i]) THEN
            Verdict(r.id, "REJECT", "EmittedCall", TRUE, "")
       ELSE IF cs.pl = "param" /\ r.params # [i \in 1..Len(sites) |-> 7] THEN
            Verdict(r.id, "REJECT", "ParamsByValue", TRUE, "")
       ELSE Verdict(r.id, "ACCEPT", "", TRUE, "")

Judge(r) == CASE r.kind = "untyped" -> JudgeUntyped(r)
              [] r.kind = "callbacks" -> JudgeCallbacks(r)
              [] r.kind = "types" -> JudgeTypes(r)
              [] r.kind = "call" -> JudgeCall(r)
              [] OTHER -> Verdict(r.id, "UNMODELLED", "kind", FALSE, r.kind)

(* what the specification itself predicts (exported so that the harness can cross-check *)
(* the specification against CPython's own inspect.Signature.bind: spec honesty)        *)
SpecSays(r) == IF r.kind = "call"
               THEN [miss |-> Missing(r.sig, r.shape),
                     want |-> IF Missing(r.sig, r.shape) THEN <<>> ELSE Normalized(r.sig, r.shape)]
               ELSE IF r.kind = "types" THEN [miss |-> FALSE, want |-> SpecTypes(r)]
               ELSE [miss |-> FALSE, want |-> <<>>]

VARIABLE l
Init == l = 1
Next == /\ l <= Len(Trace)
        /\ l' = l + 1
        /\ Serialize(ToJson([verdict |-> Judge(Trace[l]), spec |-> SpecSays(Trace[l])]) \o "\n",
                     IOEnv.OUT_FILE, AppendOpt).exitValue = 0
Spec == Init /\ [][Next]_l
Accepted == TLCGet("stats").diameter - 1 = Len(Trace)
=============================================================================
