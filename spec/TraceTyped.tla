----------------------------- MODULE TraceTyped -----------------------------
(***************************************************************************)
(* Trace validation of recorded operator calls (Select / SelectMany /      *)
(* Where on real streams) against TypeFollow.tla.                          *)
(* record (untyped, C10): [id, kind = "untyped", op, in, out, exc]         *)
(***************************************************************************)
EXTENDS TypeFollow, Json, IOUtils

Trace == ndJsonDeserialize(IOEnv.IN_FILE)
AppendOpt == [format |-> "TXT", charset |-> "UTF-8",
              openOptions |-> <<"WRITE", "CREATE", "APPEND">>]
Verdict(id, v, clause, nontriv, info) ==
    [id |-> id, v |-> v, clause |-> clause, nontrivial |-> nontriv, info |-> info]

JudgeUntyped(r) ==
    LET allowed == AllowedUntyped(r.op, r.in)
        refusable == "ValueError" \in allowed
    IN IF r.exc = "" THEN
           IF r.out = r.in THEN Verdict(r.id, "ACCEPT", "unchanged", ~refusable, "")
           ELSE Verdict(r.id, "REJECT", "Changed", TRUE, "")
       ELSE IF r.exc = "ValueError" THEN
           IF refusable THEN Verdict(r.id, "ACCEPT", "refused", FALSE, "")
           ELSE Verdict(r.id, "REJECT", "SpuriousRefusal", TRUE, r.exc)
       ELSE Verdict(r.id, "REJECT", "InternalError", TRUE, r.exc)

Judge(r) == CASE r.kind = "untyped" -> JudgeUntyped(r)
              [] OTHER -> Verdict(r.id, "UNMODELLED", "kind", FALSE, r.kind)

VARIABLE l
Init == l = 1
Next == /\ l <= Len(Trace)
        /\ l' = l + 1
        /\ Serialize(ToJson(Judge(Trace[l])) \o "\n", IOEnv.OUT_FILE, AppendOpt).exitValue = 0
Spec == Init /\ [][Next]_l
Accepted == TLCGet("stats").diameter - 1 = Len(Trace)
=============================================================================
