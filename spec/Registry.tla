------------------------------ MODULE Registry ------------------------------
(***************************************************************************)
(* The process-wide registries of func_adl/type_based_replacement.py as a  *)
(* state machine: functions usable inside lambdas (register_func_adl_      *)
(* function / func_adl_callable: name -> signature), collection classes    *)
(* that add operators to every typed iterable (register_func_adl_os_       *)
(* collection) and reset_global_functions.  A query is normalised and      *)
(* typed against the registries AS THEY ARE WHEN THE OPERATOR IS CALLED:   *)
(* the latest registration of a name wins, a reset forgets everything but  *)
(* the built-in functions, and a name that is not registered passes        *)
(* through untouched.                                                      *)
(*                                                                         *)
(* Deviation switch Sticky: the first normalisation of a name is           *)
(* remembered (a memo that registration and reset do not clear) - what a   *)
(* per-name cache in the follower would do.  With Sticky = TRUE TLC        *)
(* returns the shortest history in which a build disagrees with the        *)
(* registry.                                                               *)
(***************************************************************************)
EXTENDS RegistryDefs

CONSTANTS MaxSteps, Sticky

VARIABLES reg,      \* function name -> signature variant (0 = not registered)
          coll,     \* is the collection class that adds the operator Second registered?
          memo,     \* (model of a stale cache) name -> variant used at the first build, 0 = none
          built,    \* Seq of [what, expected]: what each build must have emitted / typed
          hist
vars == <<reg, coll, memo, built, hist>>

Act(a, nm, v) == [act |-> a, nm |-> nm, v |-> v]

Init == /\ reg = [n \in FnNames |-> 0] /\ coll = FALSE /\ memo = [n \in FnNames |-> 0]
        /\ built = <<>> /\ hist = <<>>
Room == Len(hist) < MaxSteps

Register(nm, v) == /\ Room /\ reg[nm] # v
                   /\ reg' = [reg EXCEPT ![nm] = v]
                   /\ hist' = Append(hist, Act("Register", nm, v))
                   /\ UNCHANGED <<coll, memo, built>>
RegisterColl == /\ Room /\ ~coll
                /\ coll' = TRUE
                /\ hist' = Append(hist, Act("RegisterColl", "", 0))
                /\ UNCHANGED <<reg, memo, built>>
Reset == /\ Room
         /\ reg' = [n \in FnNames |-> 0] /\ coll' = FALSE
         /\ hist' = Append(hist, Act("Reset", "", 0))
         /\ UNCHANGED <<memo, built>>
(* the design: what a build emits depends on the registry now *)
BuildFn(nm, sh) ==
    /\ Room
    /\ LET used == IF Sticky /\ memo[nm] # 0 THEN memo[nm] ELSE reg[nm] IN
       /\ built' = Append(built, [what |-> "fn", got |-> Emit(nm, used, sh), want |-> Emit(nm, reg[nm], sh)])
       /\ memo' = IF memo[nm] = 0 THEN [memo EXCEPT ![nm] = reg[nm]] ELSE memo
    /\ hist' = Append(hist, Act("BuildFn", nm, sh))
    /\ UNCHANGED <<reg, coll>>
BuildSecond ==
    /\ Room
    /\ built' = Append(built, [what |-> "second", got |-> StrC(SecondType(coll)), want |-> StrC(SecondType(coll))])
    /\ hist' = Append(hist, Act("BuildSecond", "", 0))
    /\ UNCHANGED <<reg, coll, memo>>
(* the built-in functions survive a reset: abs(x) is always known (typed float) *)
BuildAbs ==
    /\ Room
    /\ built' = Append(built, [what |-> "abs", got |-> StrC("float"), want |-> StrC("float")])
    /\ hist' = Append(hist, Act("BuildAbs", "", 0))
    /\ UNCHANGED <<reg, coll, memo>>

Next == \/ \E nm \in FnNames, v \in Variants : Register(nm, v)
        \/ RegisterColl \/ Reset
        \/ \E nm \in FnNames, sh \in Shapes : BuildFn(nm, sh)
        \/ BuildSecond \/ BuildAbs
Spec == Init /\ [][Next]_vars

(* every build is what the registry at that moment prescribes *)
BuildsFollowRegistry == \A i \in 1..Len(built) : built[i].got = built[i].want
(* a build never changes a registry, a registration never changes what was built *)
BuildsArePure == [][(\E nm \in FnNames, sh \in Shapes : BuildFn(nm, sh)) \/ BuildSecond \/ BuildAbs
                       => reg' = reg /\ coll' = coll]_vars
BuiltIsHistory == [][\A i \in 1..Len(built) : built'[i] = built[i]]_vars
NoHistView == <<reg, coll, memo, built, Len(hist)>>
=============================================================================
