----------------------------- MODULE GenCapture -----------------------------
EXTENDS Capture, Json, IOUtils
AppendOpt == [format |-> "TXT", charset |-> "UTF-8",
              openOptions |-> <<"WRITE", "CREATE", "APPEND">>]
(* maximal histories that contain at least one Build *)
Export == Len(hist) < MaxSteps \/ built = <<>> \/
          Serialize(ToJson(hist) \o "\n", IOEnv.OUT_FILE, AppendOpt).exitValue = 0
=============================================================================
