------------------------------ MODULE Streams ------------------------------
(***************************************************************************)
(* The system state machine of func_adl: a forest of ObjectStream objects  *)
(* over a heap of shared AST nodes, query metadata, executors and          *)
(* asynchronous executions.                                                *)
(*                                                                         *)
(* Two layers in one module:                                               *)
(*  - the ABSTRACT design (ghost variables of each stream record): a       *)
(*    stream is an immutable value <view, type, dataset, qmd map>;         *)
(*  - the HEAP model, shaped like the implementation: derived streams      *)
(*    point at their parent's AST node (sharing), QMetaData stores a dict  *)
(*    on a shallow copy of the top node, value() cleans empty MetaData     *)
(*    wrappers and hands the AST to the executor found by walking args[0]. *)
(* The invariants below say the heap model implements the abstract design. *)
(* Two deviation switches reproduce what the pinned implementation did     *)
(* before the fix: commits (CleanInPlace, QmdReplace); with either TRUE    *)
(* TLC returns the shortest offending history.                             *)
(***************************************************************************)
EXTENDS StreamsDefs

CONSTANTS MaxSteps,        \* history length bound
          MaxStreams,      \* streams ever created
          NDatasets,       \* dataset objects
          MaxPending,      \* concurrent executions in flight
          Focus,           \* "imm" | "exec" | "qmd" | "all": which actions are enabled
          ChainOnly,       \* TRUE: fluent chains only (derivations apply to the newest stream), small pools
          CleanInPlace,    \* deviation: remove_empty_metadata edits the shared nodes
          QmdReplace       \* deviation: QMetaData replaces the dict of the copied node

VARIABLES heap,        \* Seq of nodes [op, src, args, qmd, ds]
          streams,     \* Seq of streams [root, type, gview, gtype, gds, gqmd]
          pending,     \* Seq of executions in flight [c, s, target, ast, title]
          execLog,     \* Seq of executor invocations [c, target, ast, title]
          delivered,   \* Seq of outcomes handed back to value_async callers [c, kind, val]
          ncalls,      \* executions started so far
          hist         \* history of actions (for export / replay)

vars == <<heap, streams, pending, execLog, delivered, ncalls, hist>>

---------------------------------------------------------------------------
(* pools *)
(* a lambda whose nested call gets a default argument filled in on a typed dataset (Jet.pt(a = 1)) *)
(* a call with a KEYWORD argument whose value is itself a typed call: e.met(a = e.met()); on a typed dataset the keyword *)
(* moves to its position and the inner call gets its default (the keyword node is a child that is not an expression)  *)
DeriveOps == {<<"Select", LMet>>, <<"Where", LCut>>, <<"SelectMany", LJets>>, <<"Select", LNest>>}
               \cup (IF Focus = "imm" THEN {<<"Select", LKw>>} ELSE {})
(* what the operator emits for a lambda on a stream of the given item type *)
(* on a typed dataset Evt.met(a = 4) gets its default filled in, also below the top of the body *)
MDEmpty == Dct(<<>>)
MDOne   == Dct(<<StrC("m"), IntC(1)>>)
MDs     == {MDEmpty, MDOne}
Keys    == {"a", "b"}
Vals    == {1, 2, 3}      \* 3 is rendered as the falsy value 0 (so that "set to something falsy" is covered)
Titles  == IF ChainOnly THEN {""} ELSE {"t1", ""}
QKeys   == IF ChainOnly THEN {"a"} ELSE Keys           \* keys QMetaData calls may set
(* Focus "qmdpath": one long derivation path of Select and QMetaData steps on one key (a value set, changed and *)
(* set back again on different nodes of the path)                                                            *)
PathFocus == Focus = "qmdpath"
(* Focus "cross": two datasets; a chain of Select steps on the second one, into which the query of the FIRST dataset is *)
(* embedded as the body of a lambda (a second dataset node, not on the source chain, possibly shallower than the root); *)
(* executions must still go to the executor of the dataset at the root of the source chain                              *)
CrossFocus == Focus = "cross"
(* (4 is rendered as the value None: a key SET to None looks up as None, like a key never set, but it hides older values) *)
QVals   == IF PathFocus THEN {1, 2, 4} ELSE IF ChainOnly THEN {1, 3} ELSE Vals
Ovrs    == IF ChainOnly THEN {FALSE} ELSE BOOLEAN
Newest(s) == ~ChainOnly \/ s = Len(streams)
Cols    == Lst(<<StrC("c")>>)
NoQmd   == [k \in Keys |-> 0]          \* 0 = not set
RetVals == {7, 8}

Node(op, src, args, qmd, ds) == [op |-> op, src |-> src, args |-> args, qmd |-> qmd, ds |-> ds]

(* the AST a heap node stands for *)
RECURSIVE View(_, _)
View(h, n) == IF h[n].op = "EventDataset" THEN Fn("EventDataset", h[n].args)   \* (a root node may have arguments)
              ELSE IF h[n].op = "NameRoot" THEN Name("e")      \* a stream over a bare name (no dataset, no executor)
              ELSE Fn(h[n].op, <<View(h, h[n].src)>> \o h[n].args)

(* dataset object at the root: walk args[0] until the node carrying the executor *)
RECURSIVE RootDs(_, _)
RootDs(h, n) == IF h[n].op = "EventDataset" THEN h[n].ds ELSE IF h[n].op = "NameRoot" THEN 0 ELSE RootDs(h, h[n].src)

(* lookup_query_metadata: top-down, stop at the first node defining the key *)
RECURSIVE LookupQ(_, _, _)
LookupQ(h, n, k) == IF h[n].qmd[k] # 0 THEN h[n].qmd[k]
                    ELSE IF h[n].op \in {"EventDataset", "NameRoot"} THEN 0
                    ELSE LookupQ(h, h[n].src, k)


NStreams == Len(streams)
Room == NStreams < MaxStreams /\ Len(hist) < MaxSteps
On(f) == Focus = "all" \/ Focus \in f

Act(name, s, op, t, k, v, title, c) ==
    [act |-> name, s |-> s, op |-> op, t |-> t, k |-> k, v |-> v, title |-> title, c |-> c]

NewStream(root, type, gview, gds, gqmd) ==
    [root |-> root, type |-> type, gview |-> gview, gtype |-> type, gds |-> gds, gqmd |-> gqmd]

---------------------------------------------------------------------------
Init == /\ heap = <<>> /\ streams = <<>> /\ pending = <<>> /\ execLog = <<>>
        /\ delivered = <<>> /\ ncalls = 0 /\ hist = <<>>

NewDataset(typed) ==
    /\ Room /\ (PathFocus => ~typed) /\ (CrossFocus => ~typed /\ Len(hist) < 2)
    /\ Cardinality({i \in 1..Len(heap) : heap[i].op = "EventDataset"}) < NDatasets
    /\ LET d == Cardinality({i \in 1..Len(heap) : heap[i].op = "EventDataset"}) + 1
           n == Len(heap) + 1
           ty == IF typed THEN "Evt" ELSE "Any"
       IN /\ heap' = Append(heap, Node("EventDataset", 0, <<>>, NoQmd, d))
          /\ streams' = Append(streams, NewStream(n, ty, Fn("EventDataset", <<>>), d, NoQmd))
          /\ hist' = Append(hist, Act("NewDataset", 0, ty, Absent, "", 0, "", 0))
    /\ UNCHANGED <<pending, execLog, delivered, ncalls>>

(* ObjectStream(Name("e")): a stream whose root is a bare name (used for collection-valued items and in the  *)
(* library's own tests); query metadata may be attached to it directly; it has no executor of its own       *)
NewNameRoot ==
    /\ ~PathFocus
    /\ Room /\ Focus \in {"qmd", "imm"} /\ ~ChainOnly
    /\ \A i \in 1..Len(heap) : heap[i].op # "NameRoot"
    /\ LET n == Len(heap) + 1
       IN /\ heap' = Append(heap, Node("NameRoot", 0, <<>>, NoQmd, 0))
          /\ streams' = Append(streams, NewStream(n, "Any", Name("e"), 0, NoQmd))
          /\ hist' = Append(hist, Act("NewNameRoot", 0, "Any", Absent, "", 0, "", 0))
    /\ UNCHANGED <<pending, execLog, delivered, ncalls>>

(* a dataset DEFINED by a query on another dataset ("skim"): its root node carries that query as its first *)
(* argument.  Executions on it go to ITS executor: the walk to the root stops at the first root node.      *)
NewSkim(s) ==
    /\ Room /\ On({"exec"}) /\ ~ChainOnly
    /\ Cardinality({i \in 1..Len(heap) : heap[i].op = "EventDataset"}) < NDatasets
    /\ LET d == Cardinality({i \in 1..Len(heap) : heap[i].op = "EventDataset"}) + 1
           n == Len(heap) + 1
           p == streams[s]
       IN /\ heap' = Append(heap, Node("EventDataset", 0, <<View(heap, p.root)>>, NoQmd, d))
          /\ streams' = Append(streams, NewStream(n, "Any", Fn("EventDataset", <<p.gview>>), d, NoQmd))
          /\ hist' = Append(hist, Act("NewSkim", s, "Any", Absent, "", 0, "", 0))
    /\ UNCHANGED <<pending, execLog, delivered, ncalls>>

(* Select / Where / SelectMany: a new node whose source IS the parent's node *)
Derive(s, op, lam) ==
    /\ Room /\ (On({"imm", "exec", "qmd"}) \/ (PathFocus /\ op = "Select" /\ lam = LMet)
                 \/ (CrossFocus /\ op = "Select" /\ lam = LMet /\ Len(hist) >= 2 /\ s = Len(streams))) /\ Newest(s)
    /\ LET p == streams[s]
           n == Len(heap) + 1
       IN /\ heap' = Append(heap, Node(op, p.root, <<Emitted(lam, p.type)>>, NoQmd, 0))
          /\ streams' = Append(streams,
                 NewStream(n, StreamType(op, lam, p.type), Fn(op, <<p.gview, Emitted(lam, p.type)>>), p.gds, p.gqmd))
          /\ hist' = Append(hist, Act("Derive", s, op, lam, "", 0, "", 0))
    /\ UNCHANGED <<pending, execLog, delivered, ncalls>>

(* stream s gets a Select whose lambda body IS the query of stream o (of another dataset): s.Select(lambda e: <o>) *)
DeriveCross(s, o) ==
    /\ Room /\ CrossFocus /\ Len(hist) >= 2 /\ s = Len(streams) /\ o \in 1..Len(streams)
    /\ RootDs(heap, streams[o].root) # 0 /\ RootDs(heap, streams[o].root) # RootDs(heap, streams[s].root)
    /\ LET p == streams[s]
           n == Len(heap) + 1
       IN /\ heap' = Append(heap, Node("Select", p.root, <<Lam1("e", View(heap, streams[o].root))>>, NoQmd, 0))
          /\ streams' = Append(streams, NewStream(n, "Any", Fn("Select", <<p.gview, Lam1("e", streams[o].gview)>>),
                                                  p.gds, p.gqmd))
          /\ hist' = Append(hist, Act("DeriveCross", s, "Select", Absent, "", 0, "", o))
    /\ UNCHANGED <<pending, execLog, delivered, ncalls>>

MetaDataAct(s, md) ==
    /\ Room /\ On({"imm", "exec", "qmd"}) /\ Newest(s)
    /\ LET p == streams[s]
           n == Len(heap) + 1
       IN /\ heap' = Append(heap, Node("MetaData", p.root, <<md>>, NoQmd, 0))
          /\ streams' = Append(streams,
                 NewStream(n, p.type, Fn("MetaData", <<p.gview, md>>), p.gds, p.gqmd))
          /\ hist' = Append(hist, Act("MetaData", s, "", md, "", 0, "", 0))
    /\ UNCHANGED <<pending, execLog, delivered, ncalls>>

(* QMetaData({k: v}): nothing new to record -> same node; otherwise a shallow copy of *)
(* the top node carrying the dictionary                                               *)
QMetaDataAct(s, k, v) ==
    /\ Room /\ On({"qmd", "imm", "qmdpath"}) /\ Newest(s)
    /\ LET p == streams[s]
           found == LookupQ(heap, p.root, k)
           n == Len(heap) + 1
           old == heap[p.root]
           newq == IF QmdReplace THEN [NoQmd EXCEPT ![k] = v] ELSE [old.qmd EXCEPT ![k] = v]
           gq == [p.gqmd EXCEPT ![k] = v]
       IN /\ IF found = v
             THEN /\ heap' = heap
                  /\ streams' = Append(streams, NewStream(p.root, p.type, p.gview, p.gds, gq))
             ELSE /\ heap' = Append(heap, [old EXCEPT !.qmd = newq])
                  /\ streams' = Append(streams, NewStream(n, p.type, p.gview, p.gds, gq))
          /\ hist' = Append(hist, Act("QMetaData", s, "", Absent, k, v, "", 0))
    /\ UNCHANGED <<pending, execLog, delivered, ncalls>>

(* QMetaData({a: v1, b: v2}): each key is recorded only if it is new or changes; one copy carries them all *)
QMetaData2Act(s, v1, v2) ==
    /\ Room /\ On({"qmd"}) /\ Newest(s)
    /\ LET p == streams[s]
           fa == LookupQ(heap, p.root, "a")
           fb == LookupQ(heap, p.root, "b")
           n == Len(heap) + 1
           old == heap[p.root]
           base == IF QmdReplace THEN NoQmd ELSE old.qmd
           newq == [k \in Keys |-> IF k = "a" /\ fa # v1 THEN v1
                                    ELSE IF k = "b" /\ fb # v2 THEN v2 ELSE base[k]]
           gq == [k \in Keys |-> IF k = "a" THEN v1 ELSE v2]
       IN /\ IF fa = v1 /\ fb = v2
             THEN /\ heap' = heap
                  /\ streams' = Append(streams, NewStream(p.root, p.type, p.gview, p.gds, gq))
             ELSE /\ heap' = Append(heap, [old EXCEPT !.qmd = newq])
                  /\ streams' = Append(streams, NewStream(n, p.type, p.gview, p.gds, gq))
          /\ hist' = Append(hist, Act("QMetaData2", s, "", Absent, "ab", v1, "", v2))
    /\ UNCHANGED <<pending, execLog, delivered, ncalls>>

Terminal(s) ==
    /\ Room /\ On({"imm", "exec"}) /\ Newest(s)
    /\ LET p == streams[s]
           n == Len(heap) + 1
       IN /\ heap' = Append(heap, Node("ResultAwkwardArray", p.root, <<Cols>>, NoQmd, 0))
          /\ streams' = Append(streams,
                 NewStream(n, "Any", Fn("ResultAwkwardArray", <<p.gview, Cols>>), p.gds, p.gqmd))
          /\ hist' = Append(hist, Act("Terminal", s, "", Absent, "", 0, "", 0))
    /\ UNCHANGED <<pending, execLog, delivered, ncalls>>

(* what the in-place cleaner does to the shared heap: every node reachable from r   *)
(* whose source is an empty MetaData wrapper is re-pointed past it                   *)
RECURSIVE SkipEmpty(_, _)
SkipEmpty(h, n) == IF h[n].op = "MetaData" /\ h[n].args = <<MDEmpty>> THEN SkipEmpty(h, h[n].src) ELSE n
RECURSIVE Reach(_, _)
Reach(h, n) == {n} \cup (IF h[n].op \in {"EventDataset", "NameRoot"} THEN {} ELSE Reach(h, h[n].src))
CleanHeap(h, r) == [i \in 1..Len(h) |->
                      IF i \in Reach(h, r) /\ h[i].op \notin {"EventDataset", "NameRoot"}
                      THEN [h[i] EXCEPT !.src = SkipEmpty(h, h[i].src)] ELSE h[i]]

(* value_async(executor = override?, title): executor found, AST cleaned, call started *)
ValueStart(s, title, ovr) ==
    /\ Len(hist) < MaxSteps /\ On({"exec", "imm", "qmd"})
    /\ Len(pending) < MaxPending
    /\ (ovr \/ RootDs(heap, streams[s].root) # 0)                \* (a bare-name root has no executor of its own)
    /\ LET p == streams[s]
           c == ncalls + 1
           target == IF ovr THEN 0 ELSE RootDs(heap, p.root)      \* 0 = the override executor
           ast == RemoveEmptyMD(View(heap, p.root))
           call == [c |-> c, s |-> s, target |-> target, ast |-> ast, title |-> title]
       IN /\ heap' = IF CleanInPlace THEN CleanHeap(heap, p.root) ELSE heap
          /\ pending' = Append(pending, call)
          /\ execLog' = Append(execLog, call)
          /\ ncalls' = c
          /\ hist' = Append(hist, Act("ValueStart", s, IF ovr THEN "override" ELSE "", Absent, "", 0, title, c))
    /\ UNCHANGED <<streams, delivered>>

(* value(): the synchronous wrapper -- start, executor returns / raises at once, outcome delivered, one step *)
ValueSync(s, title, kind, val) ==
    /\ Len(hist) < MaxSteps /\ (On({"exec"}) \/ (CrossFocus /\ s = Len(streams) /\ Len(hist) >= 2))
    /\ RootDs(heap, streams[s].root) # 0
    /\ LET p == streams[s]
           c == ncalls + 1
           ast == RemoveEmptyMD(View(heap, p.root))
           call == [c |-> c, s |-> s, target |-> RootDs(heap, p.root), ast |-> ast, title |-> title]
       IN /\ heap' = IF CleanInPlace THEN CleanHeap(heap, p.root) ELSE heap
          /\ execLog' = Append(execLog, call)
          /\ delivered' = Append(delivered, [c |-> c, kind |-> kind, val |-> val])
          /\ ncalls' = c
          /\ hist' = Append(hist, Act("ValueSync", s, kind, Absent, "", val, title, c))
    /\ UNCHANGED <<streams, pending>>

(* value() on a stream that has no dataset at its root: the call is rejected - and, like every failing call, leaves every *)
(* stream exactly as it was                                                                                             *)
ValueFail(s) ==
    /\ Len(hist) < MaxSteps /\ On({"imm"}) /\ ~ChainOnly
    /\ RootDs(heap, streams[s].root) = 0
    /\ hist' = Append(hist, Act("ValueFail", s, "", Absent, "", 0, "", 0))
    /\ UNCHANGED <<heap, streams, pending, execLog, delivered, ncalls>>

Complete(i, kind, val) ==
    /\ Len(hist) < MaxSteps
    /\ i \in 1..Len(pending)
    /\ delivered' = Append(delivered, [c |-> pending[i].c, kind |-> kind, val |-> val])
    /\ pending' = [j \in 1..(Len(pending) - 1) |-> IF j < i THEN pending[j] ELSE pending[j + 1]]
    /\ hist' = Append(hist, Act(IF kind = "ret" THEN "ExecReturn" ELSE "ExecRaise", 0, "", Absent, "", val, "",
                                pending[i].c))
    /\ UNCHANGED <<heap, streams, execLog, ncalls>>

Next ==
    \/ \E typed \in BOOLEAN : NewDataset(typed)
    \/ NewNameRoot
    \/ \E s \in 1..NStreams :
          \/ NewSkim(s)
          \/ \E d \in DeriveOps : Derive(s, d[1], d[2])
          \/ \E o \in 1..NStreams : DeriveCross(s, o)
          \/ \E md \in MDs : MetaDataAct(s, md)
          \/ \E k \in QKeys, v \in QVals : QMetaDataAct(s, k, v)
          \/ \E v1 \in Vals, v2 \in Vals : QMetaData2Act(s, v1, v2)
          \/ Terminal(s)
          \/ \E title \in Titles, ovr \in Ovrs : ValueStart(s, title, ovr)
          \/ \E title \in Titles : ValueSync(s, title, "ret", 7) \/ ValueSync(s, title, "raise", 0)
          \/ ValueFail(s)
    \/ \E i \in 1..Len(pending) : \E val \in RetVals : Complete(i, "ret", val)
    \/ \E i \in 1..Len(pending) : Complete(i, "raise", 0)

Spec == Init /\ [][Next]_vars

---------------------------------------------------------------------------
(* The heap model implements the abstract design (C11, C12, C16) *)

(* C11: what a stream shows never changes: its heap view is its creation-time view *)
Immutable == \A s \in 1..NStreams :
                 /\ View(heap, streams[s].root) = streams[s].gview
                 /\ streams[s].type = streams[s].gtype
ImmutableStep == [][\A s \in 1..NStreams :
                       /\ View(heap', streams'[s].root) = View(heap, streams[s].root)
                       /\ streams'[s].type = streams[s].type]_vars

(* C16: lookup = last write on the stream's own derivation path; the executor never sees it *)
QmdOK == \A s \in 1..NStreams : \A k \in Keys :
             LookupQ(heap, streams[s].root, k) = streams[s].gqmd[k]

(* C12 *)
NoExecWhileBuilding ==
    [][(hist' # hist /\ hist'[Len(hist')].act \notin {"ValueStart", "ValueSync"}) => execLog' = execLog]_vars
ExactlyOneCall ==
    [][(hist' # hist /\ hist'[Len(hist')].act \in {"ValueStart", "ValueSync"}) => Len(execLog') = Len(execLog) + 1]_vars
RoutedAndClean ==
    \A i \in 1..Len(execLog) :
        LET e == execLog[i]  s == streams[e.s] IN
        /\ e.target \in {0, s.gds}
        /\ e.ast = RemoveEmptyMD(s.gview)
        /\ ~\E w \in MDPaths(e.ast, <<>>) : IsEmptyDict(At(e.ast, w).a[3])
OutcomeOnce == \A i, j \in 1..Len(delivered) : delivered[i].c = delivered[j].c => i = j
DeliveredWasStarted == \A i \in 1..Len(delivered) : \E j \in 1..Len(execLog) : execLog[j].c = delivered[i].c

TypeOK == /\ Len(streams) <= MaxStreams
          /\ \A i \in 1..Len(heap) : heap[i].src < i

(* hide the history variable in the design-level runs *)
NoHistView == <<heap, streams, pending, execLog, delivered, ncalls, Len(hist)>>

=============================================================================
