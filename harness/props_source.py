"""C03: source recovery returns the lambda that was actually passed (spec/Source.tla).

spec -> code : TLC (GenLayout) enumerates statement layouts; each is rendered to real source text in a generated
               module (break positions, comments, strings with brackets and the word lambda, enclosing constructs,
               a second lambda in the statement, a preceding statement on the line, one-line defs passed by name)
code -> spec : the module is imported and run against the real ObjectStream operators through a recording proxy;
               TLC (TraceSource) decides: a recovered lambda equals the lambda passed at that call, and layouts
               inside Supported (DESIGN.md A.3) are recovered without error.
"""

import ast
import importlib.util
import json
import logging
import os
import sys

import codec
import common
import tlcrun

# quick: every decoration of ONE call exhaustively (24576 layouts, sub-sampled), chains of 2-3 calls by seeded random walks of
# the same machine and exhaustively in "line" mode; thorough: all decorations of two-call chains exhaustively (2.4M layouts)
PLANS = {"quick": {"MaxCalls": 1, "keep": 3000, "rand": 6000}, "thorough": {"MaxCalls": 2, "keep": 60000, "rand": 40000}}

PRELUDE = '''
def keep(f):
    return f


def second(a, b):
    return b


def first(a, b):
    return a


class Ctx:
    def __enter__(self):
        return self

    def __exit__(self, *a):
        return False
'''


def lambda_text(call, marker, multiline):
    p = call["p"]
    core = f"{p}.f('lambda z: (') + {marker}" if call["deco"] == "str" else f"{p} + {marker}"
    if call["op"] == "Where":
        core = f"{p}.f('[lambda') > {marker}" if call["deco"] == "str" else f"{p} > {marker}"
    if call["deco"] == "fstr":
        # (tokenised piecewise since Python 3.12: the literal part is a token of its own)
        fs = "f'{" + p + ".i}]'" if call["op"] == "Select" else "f'({" + p + ".i}'"
        core = f"{p}.f({fs}) " + ("+" if call["op"] == "Select" else ">") + f" {marker}"
    return core


def render(lay, idx, moff=0):
    """-> (source of function q_idx, list of one-line defs, want lambda texts)"""
    calls = lay["calls"]
    defs = []
    want = []
    pre_stmts = []
    any_dot = any(c["brk"] in ("dot", "all") for c in calls) or lay["wrap"] in ("comp", "cond") or \
        lay["extra"] != "none"
    split = lay.get("split", 0)
    short = lay.get("recv", "ds") == "short"
    if short:
        pre_stmts += ["a = ds", "b = ds"]
    pieces = ["a" if short else "ds"]
    for k, c in enumerate(calls):
        if split and k == split:
            pieces.append(", " + ("b" if short else "ds"))
        marker = 100 * (k + 1) + 1 + moff
        p = c["p"]
        core = lambda_text(c, marker, False)
        want.append(f"lambda {p}: {core}")
        if lay["kind"] == "def":
            fname = f"f_{idx}_{k}"
            defs.append(f"def {fname}({p}): return {core}\n")
            arg_lines = [fname]
        elif lay["kind"] == "var":
            # the lambda is bound to a name in the statement before and passed by that name
            fname = f"v_{idx}_{k}"
            pre_stmts.append(f"{fname} = lambda {p}: {core}")
            arg_lines = [fname]
        elif lay["kind"] == "wrapped":
            arg_lines = [f"keep(lambda {p}: {core})"]
        else:
            if c["brk"] in ("body", "all"):
                # the body spans two physical lines inside parentheses
                a, op, b = core.rpartition(" + " if " + " in core else " > ")
                arg_lines = [f"lambda {p}: ({a}{op.rstrip()}", f"    {b})"]
                want[-1] = f"lambda {p}: ({core})"
            else:
                arg_lines = [f"lambda {p}: {core}"]
        cmt = "  # c (lambda x: [" if c["deco"] == "cmt" else ""
        brk = c["brk"]
        out = []
        if brk in ("dot", "all"):
            out.append("\n")
        out.append(f".{c['op']}(")
        if brk in ("paren", "all"):
            out.append("\n    ")
            if c["deco"] == "cline":
                out.append("# a comment line of its own\n    ")
        out.append(("\n    ".join(arg_lines[:-1]) + ("\n    " if len(arg_lines) > 1 else "")) + arg_lines[-1] + cmt)
        if brk in ("close", "all") or cmt:
            out.append("\n")
        out.append(")")
        pieces.append("".join(out))
    chain = "".join(pieces)
    if split:
        chain = f"second({chain})"
    if lay["extra"] in ("before_same", "before_other"):
        ep = calls[0]["p"] if lay["extra"] == "before_same" else "P"
        chain = f"second(keep(lambda {ep}: {ep} + 99), {chain})"
    elif lay["extra"] == "after_same":
        ep = calls[0]["p"]
        chain = f"first({chain}, keep(lambda {ep}: {ep} + 99))"
    multiline = "\n" in chain
    expr = f"({chain})" if (multiline and not chain.startswith(("second(", "first("))) else chain
    if lay["wrap"] == "comp":
        expr = f"[{expr} for _ in range(1)][0]"
    elif lay["wrap"] == "cond":
        expr = f"({expr} if ds is not None else None)"
    pre = "zz = 1; " if lay["pre"] else ""
    stmt = "".join(ps + "\n" for ps in pre_stmts) + f"{pre}q = {expr}"

    def indent(text, n):
        return "\n".join((" " * n + ln) if ln.strip() else ln for ln in text.split("\n"))
    w = lay["wrap"]
    if w == "defline":
        if "\n" not in stmt and lay["kind"] == "lambda" and not lay["pre"]:
            # the whole function on one physical line: a def keyword precedes the lambda on the lambda's own line
            return f"def q_{idx}(ds): return {expr}\n", defs, want
        w = "fn"
    if w in ("fn", "comp", "cond"):
        src = f"def q_{idx}(ds):\n{indent(stmt, 4)}\n    return q\n"
    elif w == "if":
        src = f"def q_{idx}(ds):\n    if ds is not None:\n{indent(stmt, 8)}\n    return q\n"
    elif w == "method":
        src = (f"class C_{idx}:\n    def run(self, ds):\n{indent(stmt, 8)}\n        return q\n\n\n"
               f"def q_{idx}(ds):\n    return C_{idx}().run(ds)\n")
    elif w == "nested":
        src = (f"def q_{idx}(ds):\n    def inner():\n{indent(stmt, 8)}\n        return q\n    return inner()\n")
    else:   # with
        src = f"def q_{idx}(ds):\n    with Ctx():\n{indent(stmt, 8)}\n    return q\n"
    return src, defs, want


class Proxy:
    """Wraps a real stream; records, per operator call, what was recovered or what was raised."""

    def __init__(self, s, log):
        self.s = s
        self.log = log

    def _op(self, name, f):
        try:
            n = getattr(self.s, name)(f)
            self.log.append({"res": "ok", "lam": codec.enc(n.query_ast.args[1])})
            return Proxy(n, self.log)
        except Exception as e:
            self.log.append({"res": type(e).__name__, "lam": codec.T("absent"), "msg": str(e)[:80]})
            return Proxy(self.s, self.log)

    def Select(self, f):
        return self._op("Select", f)

    def Where(self, f):
        return self._op("Where", f)


def call_site_lines(src, lay):
    """physical lines of every operator call site (and of the extra lambda's call) in the rendered function"""
    tree = ast.parse(src)
    sites = []
    extra = []
    for n in ast.walk(tree):
        if isinstance(n, ast.Call) and isinstance(n.func, ast.Attribute) and n.func.attr in ("Select", "Where"):
            sites.append((n.func.end_lineno, n.func.end_col_offset, list(range(n.func.end_lineno, n.end_lineno + 1))))
        if isinstance(n, ast.Call) and isinstance(n.func, ast.Name) and n.func.id == "keep":
            extra.append(list(range(n.lineno, n.end_lineno + 1)))
    sites.sort()
    return [s[2] for s in sites] + extra


def run(prop, tier):
    logging.disable(logging.WARNING)
    from func_adl import EventDataset
    rep = common.Report(prop, tier)
    plan = PLANS[tier]
    lays = []
    for name, sim in (("bfs", None), ("line3", None), ("cline2", None), ("rand3", f"num={max(1, plan['rand'] // 400)}")):
        d = tlcrun.fresh_dir(common.outdir(prop, "gen_" + name))
        cfg = os.path.join(d, "gen.cfg")
        tlcrun.write_cfg(cfg, constants={"MaxCalls": plan["MaxCalls"] if name == "bfs" else (2 if name == "cline2" else 3),
                                         "Mode": {"line3": '"line"', "bfs": '"wide"', "cline2": '"cline"'}.get(name, '"rand"')},
                         invariants=["Export"])
        out = os.path.join(d, "layouts.ndjson")
        st = tlcrun.run("GenLayout", cfg, d, env={"OUT_FILE": out}, workers=16, simulate=sim,
                        extra_args=(["-depth", "8", "-seed", str(common.seed() + 9)] if sim else []))
        rep.add_tlc(st)
        got = [json.loads(x) for x in sorted({line.strip() for line in open(out) if line.strip()})]
        total = len(got)

        def feat(lay):
            return (len(lay["calls"]), lay["wrap"], lay["extra"], lay["pre"], lay["kind"],
                    tuple(sorted({c["brk"] for c in lay["calls"]})), tuple(sorted({c["deco"] for c in lay["calls"]})),
                    len({(c["op"], c["p"]) for c in lay["calls"]}), lay["split"], lay["recv"])
        if name not in ("line3", "cline2"):          # the small exhaustive families are replayed completely
            got = common.subsample_stratified(got, plan["keep"] if sim is None else plan["rand"], salt=name, key=feat)
        rep.extra.setdefault("families", {})[name] = {"generated": total, "replayed": len(got)}
        lays += got

    class DS(EventDataset):
        async def execute_result_async(self, a, title=None):
            return 0

    moddir = tlcrun.fresh_dir(common.outdir(prop, "mod"))
    CHUNK = 200
    recs = []

    def run_chunk(name, idxs, moff, record=True):
        text = PRELUDE + "\n\n"
        meta = {}
        for i in idxs:
            src, defs, want = render(lays[i], i, moff)
            try:
                ast.parse(src)
            except SyntaxError as e:
                raise common.MachineryError(f"rendered layout does not parse: {e}\n{src}")
            text += "".join(defs) + "\n\n" + src + "\n\n"
            meta[i] = (src, want)
        modpath = os.path.join(moddir, name + ".py")
        with open(modpath, "w") as f:
            f.write(text)
        spec = importlib.util.spec_from_file_location(name, modpath)
        mod = importlib.util.module_from_spec(spec)
        sys.modules[name] = mod
        spec.loader.exec_module(mod)
        for i, (src, want) in meta.items():
            log = []
            try:
                getattr(mod, f"q_{i}")(Proxy(DS(), log))
            except Exception as e:
                log.append({"res": "Harness:" + type(e).__name__, "lam": codec.T("absent"), "msg": str(e)[:80]})
            n = len(want)
            obs = log[:n] + [{"res": "not-reached", "lam": codec.T("absent")}] * (n - len(log))
            if not record:
                continue
            recs.append({"id": len(recs), "lay": lays[i], "lines": call_site_lines(src, lays[i]),
                         "want": [codec.enc(ast.parse(w).body[0].value) for w in want],
                         "obs": [{"res": o["res"], "lam": o["lam"]} for o in obs], "source": src,
                         "msgs": [o.get("msg", "") for o in obs]})

    for c0 in range(0, len(lays), CHUNK):
        run_chunk(f"c03_layouts_{c0 // CHUNK}", range(c0, min(c0 + CHUNK, len(lays))), 0)
    # the same files EDITED and executed again in this process (an interactive session, importlib.reload): the new
    # text has other constants in the lambdas; what is recovered must be the lambda that is passed NOW.  (Lambda
    # layouts only: nothing else in these files makes the library look at the file again.)
    lam_idx = [i for i in range(len(lays)) if lays[i]["kind"] == "lambda"][:600]
    nre = 0
    for c0 in range(0, len(lam_idx), CHUNK):
        idxs = lam_idx[c0:c0 + CHUNK]
        run_chunk(f"c03_edited_{c0 // CHUNK}", idxs, 0, record=False)
        run_chunk(f"c03_edited_{c0 // CHUNK}", idxs, 1000)
        nre += len(idxs)
    rep.extra.setdefault("families", {})["edited and re-executed"] = {"replayed": nre}
    vrecs = [{k: r[k] for k in ("id", "lay", "lines", "want", "obs")} for r in recs]
    verdicts, vst = common.validate(prop, "source", "TraceSource", vrecs, per_shard=500)
    rep.add_tlc(vst)
    rep.traces = len(recs)
    rep.evaluations = len(recs)
    counts = {}
    for cid, v in sorted(verdicts.items()):
        key = v["v"] + (":" + v["clause"] if v["clause"] else "") + (" [supported]" if v["supported"] else " [outside]")
        counts[key] = counts.get(key, 0) + 1
        r = recs[cid]
        if v["v"] == "ACCEPT":
            if v["supported"] and v["clause"] == "":
                rep.nontrivial += 1
            if cid % 977 == 0:
                rep.sample({"layout": r["lay"], "source": r["source"], "outcome": [o["res"] for o in r["obs"]]})
        else:
            rep.reject(cid, v["clause"], {"property": prop, "layout": r["lay"], "source": r["source"],
                                          "call_site_lines": r["lines"],
                                          "observed": [(codec.src(o["lam"]) if o["res"] == "ok" else o["res"] + " " + m)
                                                       for o, m in zip(r["obs"], r["msgs"])],
                                          "passed": [codec.src(w) for w in r["want"]], "verdict": v})
    rep.extra.update(verdicts=counts)
    rep.rule = ("layouts = behaviours of spec/GenLayout.tla (1-2 calls exhaustively sub-sampled by strata, 3 calls by "
                "seeded random walks): operator, parameter name, break position (before the dot, after the parenthesis, "
                "inside the body, before the closing parenthesis, all), string literal with brackets and the word "
                "lambda, trailing comment, enclosing construct (function, if, method, comprehension, conditional "
                "expression, nested def, with), a second lambda in the statement with the same / another parameter "
                "name, a preceding statement on the line, one-line defs passed by name, the calls split into two separate chains in one statement, one-letter receiver variables; rendered to real modules and "
                "run; TLC decides WrongLambda (never allowed) and SupportedNotRecovered; non-trivial = supported layout "
                "recovered without error")
    rep.assumptions = ["Supported(layout) as fixed in DESIGN.md A.3, evaluated on the call-site lines of the rendered source",
                       "token-level phenomena outside the layout grammar (tabs, form feeds, encodings) are not covered"]
    return rep.finish()
