"""pytest plug-in: records every outermost call of the pure passes, of calc_ast_hash and the views of all live
ObjectStreams after every stream operation, while the repository's own tests run.

Enabled only when FUNC_ADL_VERIF=1 (MANIFEST.hooks.guard); no line of /repo is changed: public functions are wrapped
from outside at plug-in import time.  Records go to $VERIF_TRACE_FILE as ndjson; they are validated by the same
TLC trace specifications as the generated cases ("wild traces", DESIGN.md 4.3).
"""
import ast
import json
import os
import weakref

ENABLED = os.environ.get("FUNC_ADL_VERIF") == "1"
_OUT = os.environ.get("VERIF_TRACE_FILE", "")
_depth = {"simplify": 0, "aggregate": 0}
_streams = []      # (weakref, creation view json, creation type)
_fh = None


def _emit(rec):
    global _fh
    if not _OUT:
        return
    if _fh is None:
        _fh = open(_OUT, "a")
    _fh.write(json.dumps(rec, separators=(",", ":")) + "\n")
    _fh.flush()


def _install():
    import codec
    import func_adl.ast as fa
    import func_adl.ast.aggregate_shortcuts as agg
    import func_adl.ast.ast_hash as ah
    import func_adl.ast.func_adl_ast_utils as fu
    import func_adl.ast.function_simplifier as fs
    import func_adl.ast.meta_data as md
    import func_adl.object_stream as osm

    def test_id():
        return os.environ.get("PYTEST_CURRENT_TEST", "").split(" ")[0]

    def enc(x):
        try:
            return codec.enc(x)
        except Exception:
            return codec.T("opaque", s="unencodable")

    def wrap_visit(cls, name):
        orig = cls.visit

        def visit(self, node):
            if _depth[name] > 0 or not isinstance(node, ast.AST):
                return orig(self, node)
            _depth[name] += 1
            tin = enc(node)
            rec = {"pass": name, "in": tin, "out": codec.T("absent"), "exc": "", "test": test_id()}
            try:
                out = orig(self, node)
                rec["out"] = enc(out)
                return out
            except Exception as e:
                rec["exc"] = type(e).__name__
                raise
            finally:
                _depth[name] -= 1
                _emit(rec)
        cls.visit = visit

    wrap_visit(fs.simplify_chained_calls, "simplify")
    wrap_visit(agg.aggregate_node_transformer, "aggregate")

    def wrap_fn(mods, fname, pname, post=None):
        orig = getattr(mods[0], fname)

        def f(a, *args, **kw):
            if not isinstance(a, ast.AST):
                return orig(a, *args, **kw)
            tin = enc(a)
            rec = {"pass": pname, "in": tin, "out": codec.T("absent"), "exc": "", "test": test_id(), "extra": [],
                   "custom_args": bool(args or kw)}
            try:
                out = orig(a, *args, **kw)
                if post:
                    post(rec, out, a, tin)
                else:
                    rec["out"] = enc(out)
                return out
            except Exception as e:
                rec["exc"] = type(e).__name__
                raise
            finally:
                _emit(rec)
        f.__name__ = fname
        for m in mods:
            if hasattr(m, fname):
                setattr(m, fname, f)

    def post_tofunc(rec, out, a, tin):
        rec["out"] = enc(out)
    wrap_fn([fu, fa], "change_extension_functions_to_calls", "tofunc", post_tofunc)

    def post_extract(rec, out, a, tin):
        rec["out"] = enc(out[0])
        rec["extra"] = [enc(ast.parse(repr(m), mode="eval")) for m in out[1]]
    wrap_fn([md, fa], "extract_metadata", "extract_md", post_extract)

    def post_remove(rec, out, a, tin):
        rec["out"] = enc(out)
        rec["input_unchanged"] = enc(a) == tin
    wrap_fn([md], "remove_empty_metadata", "remove_empty_md", post_remove)

    orig_hash = ah.calc_ast_hash

    def calc_ast_hash(a):
        h = orig_hash(a)
        if isinstance(a, ast.AST):
            _emit({"pass": "hash", "in": enc(a), "h": h, "test": test_id()})
        return h
    ah.calc_ast_hash = calc_ast_hash

    # ---- streams: every stream ever created must keep showing its creation-time query and type
    OS = osm.ObjectStream
    orig_init = OS.__init__

    def __init__(self, the_ast, item_type=osm.Any):
        orig_init(self, the_ast, item_type)
        try:
            _streams.append((weakref.ref(self), json.dumps(enc(self._q_ast), sort_keys=True), repr(item_type)))
        except TypeError:
            pass
    OS.__init__ = __init__
    orig_clone = OS.clone_with_new_ast

    def clone_with_new_ast(self, new_ast, new_type):
        c = orig_clone(self, new_ast, new_type)
        try:
            _streams.append((weakref.ref(c), json.dumps(enc(c._q_ast), sort_keys=True), repr(new_type)))
        except TypeError:
            pass
        return c
    OS.clone_with_new_ast = clone_with_new_ast

    def check_all(opname):
        alive = []
        v0, v1, t0, t1 = [], [], [], []
        for (w, view0, ty0) in _streams:
            s = w()
            if s is None:
                continue
            alive.append((w, view0, ty0))
            v0.append(json.loads(view0))
            v1.append(enc(s._q_ast))
            t0.append(ty0)
            t1.append(repr(s._item_type))
        _streams[:] = alive
        # the projected state after the step: every live stream's creation-time view / type and what it shows now
        _emit({"pass": "imm", "views0": v0, "views1": v1, "types0": t0, "types1": t1, "op": opname, "exc": "",
               "test": test_id()})

    for name in ("Select", "SelectMany", "Where", "MetaData", "QMetaData", "AsPandasDF", "AsROOTTTree",
                 "AsParquetFiles", "AsAwkwardArray"):
        orig = getattr(OS, name)

        def make(orig, name):
            import functools

            @functools.wraps(orig)          # inspect.signature must keep seeing the real parameters
            def op(self, *a, **kw):
                try:
                    return orig(self, *a, **kw)
                finally:
                    check_all(name)
            return op
        setattr(OS, name, make(orig, name))
    for alias, target in (("as_pandas", "AsPandasDF"), ("as_ROOT_tree", "AsROOTTTree"), ("as_parquet", "AsParquetFiles"),
                          ("as_awkward", "AsAwkwardArray")):
        setattr(OS, alias, getattr(OS, target))
    orig_va = OS.value_async

    import functools

    @functools.wraps(orig_va)
    async def value_async(self, *a, **kw):
        try:
            return await orig_va(self, *a, **kw)
        finally:
            check_all("value")
    OS.value_async = value_async
    from make_it_sync import make_sync
    OS.value = make_sync(value_async)


def pytest_sessionstart(session):
    # one new history per test: streams of an earlier test are no longer inspected
    pass


def pytest_runtest_setup(item):
    if ENABLED:
        del _streams[:]


if ENABLED:
    _install()
