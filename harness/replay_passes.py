"""Replay generated programs through the real pure passes of /repo and record
(input, output | exception) pairs.  The input is encoded *before* the call."""

import ast
import multiprocessing as mp
import signal
import sys

import codec

# per-case budget in CPU seconds of the worker (ITIMER_PROF): wall-clock alarms gave false "Timeout"
# verdicts when the machine was busy (thorough tiers of C17/C19, see DESIGN.md 11.4)
CASE_TIMEOUT_S = 30


class _Timeout(Exception):
    pass


def _alarm(signum, frame):
    raise _Timeout()


def _compiles(node):
    try:
        src = ast.unparse(ast.fix_missing_locations(ast.Expression(body=node)))
        compile(src, "<out>", "eval")
        return True, src
    except Exception as e:  # malformed output
        return False, type(e).__name__


_REUSED = {}


def _reused(kind):
    """one transformer object used for many queries (as a long-lived backend does); it has seen a query that
    gives the pass nothing to do before"""
    if kind not in _REUSED:
        if kind == "aggregate":
            from func_adl.ast.aggregate_shortcuts import aggregate_node_transformer
            obj = aggregate_node_transformer()
        else:
            from func_adl.ast.function_simplifier import simplify_chained_calls
            obj = simplify_chained_calls()
        obj.visit(ast.parse("Select(ds, lambda e: e.x)").body[0].value)
        _REUSED[kind] = obj
    return _REUSED[kind]


def _apply(pass_name, node, flags=None):
    if flags and flags.get("reuse") and pass_name in ("aggregate", "simplify"):
        return _reused(pass_name).visit(node)
    if pass_name == "simplify":
        from func_adl.ast.function_simplifier import simplify_chained_calls
        return simplify_chained_calls().visit(node)
    if pass_name == "simplify_fresh":
        # as the first simplification of a process: the generator of fresh argument names starts at arg_0
        # (the queries of this family already use such names, e.g. because they were simplified elsewhere before)
        import func_adl.ast.function_simplifier as fs
        fs.argument_var_counter = 0
        return fs.simplify_chained_calls().visit(node)
    if pass_name == "simplify_m":     # method form first, as a backend does
        from func_adl.ast.func_adl_ast_utils import change_extension_functions_to_calls
        from func_adl.ast.function_simplifier import simplify_chained_calls
        return simplify_chained_calls().visit(change_extension_functions_to_calls(node))
    if pass_name == "sugar":
        from func_adl.ast.syntatic_sugar import resolve_syntatic_sugar
        return resolve_syntatic_sugar(node)
    if pass_name == "tofunc":
        from func_adl.ast.func_adl_ast_utils import change_extension_functions_to_calls
        return change_extension_functions_to_calls(node)
    if pass_name == "aggregate":
        from func_adl.ast.aggregate_shortcuts import aggregate_node_transformer
        return aggregate_node_transformer().visit(node)
    if pass_name == "extract_md":
        from func_adl.ast.meta_data import extract_metadata
        return extract_metadata(node)
    if pass_name == "remove_empty_md":
        from func_adl.ast.meta_data import remove_empty_metadata
        return remove_empty_metadata(node)
    if pass_name == "backend":        # the composition a backend applies
        from func_adl.ast.aggregate_shortcuts import aggregate_node_transformer
        from func_adl.ast.func_adl_ast_utils import change_extension_functions_to_calls
        from func_adl.ast.function_simplifier import simplify_chained_calls
        a = change_extension_functions_to_calls(node)
        a = aggregate_node_transformer().visit(a)
        return simplify_chained_calls().visit(a)
    raise ValueError(pass_name)


def run_one(job):
    """job = (id, pass_name, term, flags) -> record"""
    cid, pass_name, term, flags = job
    node = codec.dec_shared(term, names=bool(flags.get("shared_names"))) if flags.get("shared") else codec.dec(term)
    tin = codec.enc(node)
    rec = {"id": cid, "pass": pass_name.split("_m")[0] if pass_name == "simplify_m" else pass_name,
           "in": tin, "out": codec.T("absent"), "exc": "", "flags": dict(flags), "extra": []}
    rec["flags"].setdefault("shape", False)
    rec["flags"]["compiles"] = True
    rec["flags"]["input_unchanged"] = True
    rec["flags"]["annotations_kept"] = True
    signal.signal(signal.SIGPROF, _alarm)
    signal.setitimer(signal.ITIMER_PROF, CASE_TIMEOUT_S)
    tags = None
    if pass_name == "remove_empty_md":
        # every node gets a non-field annotation (as QMetaData / executors put on query nodes); what the pass keeps must
        # keep its annotation, also on the nodes it had to rebuild
        tags = {}
        for k, n in enumerate(ast.walk(node)):
            if isinstance(n, (ast.expr, ast.keyword, ast.arguments, ast.arg, ast.comprehension)):
                n._verif_tag = k
                tags[k] = n
    try:
        out = _apply(pass_name, node, flags)
        signal.setitimer(signal.ITIMER_PROF, 0)
        if tags is not None and isinstance(out, ast.AST):
            removed = set()
            for n in tags.values():
                if isinstance(n, ast.Call) and isinstance(n.func, ast.Name) and n.func.id == "MetaData" \
                        and len(n.args) == 2 and isinstance(n.args[1], ast.Dict) and not n.args[1].keys:
                    removed |= {n._verif_tag, n.func._verif_tag, n.args[1]._verif_tag}
            seen = [getattr(n, "_verif_tag", None) for n in ast.walk(out)
                    if isinstance(n, (ast.expr, ast.keyword, ast.arguments, ast.arg, ast.comprehension))]
            rec["flags"]["annotations_kept"] = (None not in seen) and set(seen) == set(tags) - removed
            for n in tags.values():
                del n._verif_tag
        if pass_name == "extract_md":
            out, mds = out
            rec["extra"] = [codec.enc(ast.parse(repr(m), mode="eval")) for m in mds]
        rec["out"] = codec.enc(out)
        if pass_name == "tofunc":      # idempotence: apply once more to the result
            rec["out2"] = codec.enc(_apply(pass_name, out))
        ok, _ = _compiles(out) if isinstance(out, ast.AST) else (False, "")
        rec["flags"]["compiles"] = ok
        rec["flags"]["input_unchanged"] = (codec.enc(node) == tin)
    except _Timeout:
        rec["exc"] = "Timeout"
    except RecursionError:
        signal.setitimer(signal.ITIMER_PROF, 0)
        rec["exc"] = "RecursionError"
    except Exception as e:
        signal.setitimer(signal.ITIMER_PROF, 0)
        rec["exc"] = type(e).__name__
    finally:
        signal.setitimer(signal.ITIMER_PROF, 0)
    return rec


def run_many(jobs, procs=16):
    if len(jobs) < 400 or procs <= 1:
        return [run_one(j) for j in jobs]
    ctx = mp.get_context("fork")
    with ctx.Pool(procs) as pool:
        return pool.map(run_one, jobs, chunksize=max(50, len(jobs) // (procs * 8)))


if __name__ == "__main__":
    # replay a single case: python replay_passes.py <replay.json>
    import json
    r = json.load(open(sys.argv[1]))
    rec = run_one((0, r["pass"], r["case"], r.get("flags", {})))
    print(json.dumps({"source_in": codec.src(rec["in"]) if rec["in"]["k"] != "absent" else None,
                      "exc": rec["exc"],
                      "source_out": _compiles(codec.dec(rec["out"]))[1] if rec["exc"] == "" else None},
                     indent=1))
