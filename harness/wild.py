"""Wild traces: the repository's own test-suite run under harness/verif_recorder.py (FUNC_ADL_VERIF=1)."""
import ast
import json
import os
import subprocess
import sys

import codec
import common
import tlcrun

_cache = {}


def records(prop):
    """run the suite once under the recorder; returns all records (list of dicts)"""
    if "recs" in _cache:
        return _cache["recs"]
    d = tlcrun.fresh_dir(common.outdir(prop, "wild"))
    out = os.path.join(d, "wild.ndjson")
    import func_adl
    repo = os.path.dirname(os.path.dirname(func_adl.__file__))
    env = dict(os.environ)
    env.update({"FUNC_ADL_VERIF": "1", "VERIF_TRACE_FILE": out,
                "PYTHONPATH": os.path.dirname(os.path.abspath(__file__)) + os.pathsep + env.get("PYTHONPATH", "")})
    p = subprocess.run([sys.executable, "-m", "pytest", "-q", "-p", "no:cacheprovider", "-p", "verif_recorder",
                        "-x", "--timeout=900"], cwd=repo, env=env, capture_output=True, text=True)
    tail = (p.stdout + p.stderr).strip().splitlines()[-1:] or [""]
    recs = []
    if os.path.exists(out):
        recs = [json.loads(line) for line in open(out) if line.strip()]
    _cache["recs"] = recs
    _cache["suite"] = tail[0]
    return recs


def suite_summary():
    return _cache.get("suite", "")


def _compiles(term):
    try:
        compile(codec.src(term), "<wild>", "eval")
        return True
    except Exception:
        return False


def pass_records(prop, pass_name, first_id):
    """records of one pass in the shape TracePass expects"""
    out = []
    for r in records(prop):
        if r["pass"] != pass_name or r.get("custom_args"):
            continue
        rec = {"id": first_id + len(out), "pass": pass_name, "in": r["in"], "out": r["out"], "exc": r["exc"],
               "flags": {"compiles": True, "shape": False, "malformed": False,
                         "input_unchanged": r.get("input_unchanged", True)},
               "extra": r.get("extra", []), "out2": codec.T("absent"), "test": r.get("test", "")}
        if r["exc"] == "" and r["out"]["k"] not in ("absent", "opaque"):
            rec["flags"]["compiles"] = _compiles(r["out"])
            if pass_name == "tofunc":
                try:
                    from func_adl.ast.func_adl_ast_utils import change_extension_functions_to_calls
                    rec["out2"] = codec.enc(change_extension_functions_to_calls(codec.dec(r["out"])))
                except Exception:
                    rec["out2"] = codec.T("opaque", s="second application failed")
        out.append(rec)
    return out
