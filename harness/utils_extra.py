"""Extra check (not tied to one listed property):  bin/check utils
The small public helpers of func_adl.util_ast (lambda_* / function_call) and func_adl.ast.func_adl_ast_utils
(is_call_of / unpack_Call) against their definitions in spec/TraceUtils.tla.  Inputs = every sub-term of the
programs of a Grammar family plus hand-picked corner lambdas; each helper is called on each input (as a bare node,
wrapped in a Module, and in a two-statement Module where that matters) and TLC judges the recorded result.
"""
import ast

import codec
import common

ABSENT = codec.T("absent")
EXTRA = ["lambda x: x", "lambda x, y: x", "lambda: True", "lambda x: True", "lambda x=1: x", "lambda x: y", "lambda x: 1",
         "lambda x: (x)", "a.f(1)", "f(1, k=2)", "(lambda x: x)(1)", "f()", "True", "x", "f(g(1), 2)"]


def res(kind, b=False, t=ABSENT, names=(), n=0, name="", args=()):
    return {"kind": kind, "b": bool(b), "t": t, "names": list(names), "n": n, "name": name, "args": list(args)}


def subterms(t, acc):
    k = codec.dumps(t)
    if k in acc:
        return
    acc[k] = t
    for c in t["a"]:
        subterms(c, acc)


def wrap(node, how):
    if how == "none":
        return node
    body = [ast.Expr(value=node)]
    if how == "module2":
        body.append(ast.Expr(value=ast.Constant(value=1)))
    return ast.Module(body=body, type_ignores=[])


def unwrap_result(x):
    if isinstance(x, ast.Module):
        x = x.body[0].value
    return codec.enc(x)


def run(tier):
    from func_adl.ast import func_adl_ast_utils as fu
    from func_adl import util_ast as ua
    rep = common.Report("UTILS", tier)
    progs, st = common.gen_programs("UTILS", "core2", "core", 2 if tier == "quick" else 3)
    rep.add_tlc(st)
    pool = {}
    for p in progs:
        subterms(p, pool)
    for s in EXTRA:
        subterms(codec.enc(ast.parse(s).body[0].value), pool)
    terms = [pool[k] for k in sorted(pool)]
    if tier == "quick":
        lam = [t for t in terms if t["k"] == "lam"]
        other = [t for t in terms if t["k"] != "lam"]
        terms = common.subsample(lam, 1500, salt="ul") + common.subsample(other, 1500, salt="uo")
    recs = []

    def add(fn, t, how="none", names=(), nargs=-1, t2=ABSENT, args=(), call=None):
        rec = {"id": len(recs), "fn": fn, "t": t, "wrap": how, "names": list(names), "nargs": nargs, "t2": t2,
               "args": list(args)}
        try:
            rec["res"] = call()
        except Exception:
            rec["res"] = res("exc")
        recs.append(rec)

    body2 = codec.enc(ast.parse("z + 1").body[0].value)
    for t in terms:
        for how in ("none", "module", "module2"):
            for nargs in (-1, 0, 1, 2):
                add("lambda_test", t, how, nargs=nargs,
                    call=lambda: res("bool", ua.lambda_test(wrap(codec.dec(t), how), None if nargs < 0 else nargs)))
            add("lambda_is_identity", t, how, call=lambda: res("bool", ua.lambda_is_identity(wrap(codec.dec(t), how))))
            add("lambda_is_true", t, how, call=lambda: res("bool", ua.lambda_is_true(wrap(codec.dec(t), how))))
            add("lambda_assure", t, how, nargs=1,
                call=lambda: res("term", t=unwrap_result(ua.lambda_assure(wrap(codec.dec(t), how), 1))))
        for how in ("none", "module"):
            add("lambda_unwrap", t, how, call=lambda: res("term", t=codec.enc(ua.lambda_unwrap(wrap(codec.dec(t), how)))))
            add("lambda_body", t, how, call=lambda: res("term", t=codec.enc(ua.lambda_body(wrap(codec.dec(t), how)))))

            def largs():
                a = ua.lambda_args(wrap(codec.dec(t), how))
                return res("names", names=[x.arg for x in a.args], n=len(a.defaults))
            add("lambda_args", t, how, call=largs)
            for names in (["q"], ["q", "r"]):
                add("lambda_call", t, how, names=names,
                    call=lambda: res("term", t=codec.enc(ua.lambda_call(names if len(names) > 1 else names[0],
                                                                         wrap(codec.dec(t), how)))))
            add("lambda_body_replace", t, how, t2=body2,
                call=lambda: res("term", t=codec.enc(ua.lambda_body_replace(wrap(codec.dec(t), how), codec.dec(body2)))))
        for names in (["q"], ["q", "r"], []):
            add("lambda_build", t, names=names,
                call=lambda: res("term", t=codec.enc(ua.lambda_build(names if len(names) != 1 else names[0], codec.dec(t)))))
        add("function_call", ABSENT, names=["Op"], args=[t, body2],
            call=lambda: res("term", t=codec.enc(ua.function_call("Op", [codec.dec(t), codec.dec(body2)]))))
        for nm in ("Select", "f", "First"):
            add("is_call_of", t, names=[nm], call=lambda: res("bool", fu.is_call_of(codec.dec(t), nm)))

        def unpack():
            nm, args = fu.unpack_Call(codec.dec(t))
            if nm is None:
                return res("unpack", False)
            return res("unpack", True, name=nm, args=[codec.enc(a) for a in args])
        add("unpack_Call", t, call=unpack)
    verdicts, vst = common.validate("UTILS", "utils", "TraceUtils", recs, per_shard=3000)
    rep.add_tlc(vst)
    rep.traces = len(recs)
    rep.evaluations = len(recs)
    counts = {}
    for r in recs:
        v = verdicts[r["id"]]
        counts[r["fn"]] = counts.get(r["fn"], 0) + 1
        if v["ok"]:
            rep.nontrivial += 1
        else:
            rep.reject(r["id"], v["clause"], {"property": "UTILS", "fn": r["fn"], "input": codec.src(r["t"]) if r["t"]["k"] != "absent" else "",
                                              "wrap": r["wrap"], "names": r["names"], "nargs": r["nargs"],
                                              "observed": r["res"], "clause": v["clause"]})
    rep.extra.update(calls_per_helper=counts, input_terms=len(terms))
    rep.rule = "every helper on every sub-term of the programs of family 'core' plus corner lambdas; judged by TraceUtils.Expected"
    rep.exhaustive = tier != "quick"
    rep.assumptions = []
    return rep.finish()
