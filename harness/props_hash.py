"""C20: calc_ast_hash identifies structure and nothing else.

TLC (GenHash.tla) derives base queries and every single edit of each; the harness builds each
query along several routes (parsed text, re-formatted text, annotated deep copy with other
positions / executor and query-metadata attributes, another process with another PYTHONHASHSEED,
the fluent API with str / ast / callable lambdas and QMetaData in between) and records
(term of the real AST, calc_ast_hash).  TLC (TraceHash.tla) decides h_i = h_j <=> t_i = t_j.
"""

import ast
import copy
import importlib.util
import hashlib
import json
import os
import subprocess
import sys

import logging

import codec
import common
import tlcrun

PLANS = {"quick": [("core", 2, 2500), ("expr", 2, 1500), ("pack", 2, 1500)],
         "thorough": [("core", 2, None), ("expr", 2, None), ("pack", 2, None), ("core", 3, 30000)]}
STREAM_OPS = ("Select", "Where", "SelectMany")


def gen(prop, fam, budget):
    d = tlcrun.fresh_dir(common.outdir(prop, f"gen_{fam}{budget}"))
    cfg = os.path.join(d, "gen.cfg")
    tlcrun.write_cfg(cfg, constants={"Budget": budget, "Fam": '"%s"' % fam, "Rand": "FALSE"}, invariants=["Export"])
    out = os.path.join(d, "q.ndjson")
    st = tlcrun.run("GenHash", cfg, d, env={"OUT_FILE": out}, workers=16)
    rows = {}
    for line in open(out):
        line = line.strip()
        if line:
            r = json.loads(line)
            rows[codec.dumps(r["t"])] = r
    return [rows[k] for k in sorted(rows)], st


def is_chain(t):
    """fluent-API shaped: nested Select/Where/SelectMany over the name ds"""
    if t["k"] == "name" and t["s"] == "ds":
        return True
    if t["k"] == "call" and t["a"][0]["k"] == "name" and t["a"][0]["s"] in STREAM_OPS and t["n"] == 2 \
            and not t["p"] and t["a"][2]["k"] == "lam" and len(t["a"][2]["p"]) == 1:
        return is_chain(t["a"][1])
    return False


def mentions(t, name):
    if t["k"] == "name" and t["s"] == name:
        return True
    return any(mentions(c, name) for c in t["a"])


def chain_steps(t):
    steps = []
    while t["k"] == "call":
        steps.append((t["a"][0]["s"], t["a"][2]))
        t = t["a"][1]
    return list(reversed(steps))


def reformat(src):
    return "(\n   " + src.replace(", ", " ,\n      ").replace("lambda ", "lambda   ") + "\n)   # a comment"


def annotate(node, n):
    c = copy.deepcopy(node)
    for i, x in enumerate(ast.walk(c)):
        x.lineno = 100 + i + n
        x.col_offset = 7 * i
        x.end_lineno = 100 + i + n
        x.end_col_offset = 7 * i + 3
        x._q_metadata = {"a": n}
        x._func_adl_executor = object()
    return c


SUBPROC = r"""
import sys, json, ast
from func_adl.ast.ast_hash import calc_ast_hash
for line in sys.stdin:
    r = json.loads(line)
    try:
        h, ok = calc_ast_hash(ast.parse(r["src"]).body[0].value), True
    except Exception as e:
        h, ok = "!" + type(e).__name__ + ": " + str(e)[:80], False
    print(json.dumps({"id": r["id"], "h": h, "ok": ok}))
"""


def boundary_offsets(tier):
    offs = set()
    for blk in (512, 1024, 2048, 4096, 8192, 16384, 32768, 65536):
        m = 1
        while blk * m <= 70000 and m <= (12 if tier == "quick" else 140):
            for dlt in (-2, -1, 0, 1, 2):
                offs.add(blk * m + dlt + (m - 1))      # also the drift of an off-by-one per block
                offs.add(blk * m + dlt)
            m += 1
    return sorted(o for o in offs if 300 < o < 70000)


def boundary_pair(off):
    """two queries whose dumps differ in exactly one character, at offset `off` (0-based) of ast.dump"""
    def build(pad, digit):
        return ast.parse(f"Select(ds, lambda e: (e.f('{'x' * pad}'), {digit}2345, e.g('tail')))").body[0].value
    probe = ast.dump(build(0, 1))
    at0 = probe.index("12345")
    pad = off - at0
    if pad < 0:
        return None
    a, b = build(pad, 1), build(pad, 2)
    da, db = ast.dump(a), ast.dump(b)
    diff = [i for i in range(len(da)) if da[i] != db[i]]
    if len(da) != len(db) or diff != [off]:
        raise common.MachineryError(f"boundary pair construction failed for offset {off}: {diff[:3]}")
    return a, b


async def _ret(log, a):
    log.append(a)
    return 0


def run(prop, tier):
    logging.disable(logging.WARNING)
    import warnings
    warnings.filterwarnings('ignore', category=SyntaxWarning)
    from func_adl import EventDataset
    from func_adl.ast.ast_hash import calc_ast_hash
    rep = common.Report(prop, tier)
    table = []
    sources = {}

    def add(node, route, case):
        try:
            h, ok = calc_ast_hash(node), True
        except Exception as e:      # a query that cannot be hashed: judged by TLC (clause Defined), not by the harness
            h, ok = "!" + type(e).__name__ + ": " + str(e)[:80], False
        table.append({"id": len(table) + 1, "t": codec.enc(node), "h": h, "ok": ok, "route": route, "case": case})

    class DS(EventDataset):
        async def execute_result_async(self, a, title=None):
            return 0

    fams = {}
    cases = []
    for fam, budget, keep in PLANS[tier]:
        rows, st = gen(prop, fam, budget)
        rep.add_tlc(st)
        total = len(rows)
        if keep is not None:
            rows = common.subsample(rows, keep, salt=fam)
        fams[f"{fam}{budget}"] = {"generated": total, "used": len(rows), "bases": sum(1 for r in rows if r["d"] == 0),
                                  "edits": sum(1 for r in rows if r["d"] == 1)}
        cases += rows
    # the module with real lambdas for the callable route
    moddir = tlcrun.fresh_dir(common.outdir(prop, "mod"))
    lines = []
    fluent = {}
    for ci, r in enumerate(cases):
        t = r["t"]
        if is_chain(t) and t["k"] == "call" and not any(mentions(l, "ds") for _, l in chain_steps(t)):
            body = "ds"
            for op, lam in chain_steps(t):
                body += f".{op}({codec.src(lam)})"
            lines.append(f"def q_{ci}(ds):\n    return {body}\n\n")
            fluent[ci] = True
    modpath = os.path.join(moddir, "c20_queries.py")
    with open(modpath, "w") as f:
        f.write("".join(lines))
    spec = importlib.util.spec_from_file_location("c20_queries", modpath)
    mod = importlib.util.module_from_spec(spec)
    sys.modules["c20_queries"] = mod
    spec.loader.exec_module(mod)

    nroutes = 0
    refused = [0]
    for ci, r in enumerate(cases):
        t = r["t"]
        src = codec.src(t)
        sources[ci] = src
        n1 = ast.parse(src).body[0].value
        add(n1, "parse", ci)
        add(ast.parse(reformat(src)).body[0].value, "reformatted", ci)
        add(annotate(n1, ci), "annotated-copy", ci)
        add(codec.dec(t), "constructed-nodes", ci)
        # an ast that has been hashed, then copied and edited, must hash like a fresh ast of the edited structure
        for cp, route in ((copy.deepcopy(n1), "hashed-deepcopy-edited"), (copy.copy(n1), "hashed-shallowcopy-edited")):
            if isinstance(cp, ast.Call) and route.startswith("hashed-shallow"):
                cp.args = list(cp.args) + [ast.Constant(value=7)]
            else:
                for x in ast.walk(cp):
                    if isinstance(x, ast.Name) and x.id not in STREAM_OPS and x.id not in ("First", "Count", "len"):
                        x.id = x.id + "_r"
            add(cp, route, ci)
            add(ast.parse(ast.unparse(cp)).body[0].value, "fresh-parse-of-edited", ci)
        nroutes += 8
        if is_chain(t) and t["k"] == "call":
            # an edited query may be one the operators refuse (C10's business): that route is skipped
            for how in ("str", "ast", "qmd"):
                try:
                    s = DS()
                    for i, (op, lam) in enumerate(chain_steps(t)):
                        if how == "qmd":
                            s = s.QMetaData({"k%d" % i: i})
                        f = codec.src(lam) if how != "ast" else ast.parse(codec.src(lam)).body[0].value
                        s = getattr(s, op)(f)
                    add(s.query_ast, "api-" + how, ci)
                    nroutes += 1
                    if how == "qmd":
                        # what the executor receives after the stream's ast has been hashed
                        log = []
                        s2 = s.MetaData({})
                        calc_ast_hash(s2.query_ast)
                        try:
                            s2.value(executor=lambda a, title=None: _ret(log, a))
                            if log:
                                add(log[0], "executor-ast-after-hashing", ci)
                        except Exception:
                            pass
                except Exception:
                    refused[0] += 1
            if ci in fluent:
                try:
                    s = getattr(mod, f"q_{ci}")(DS())
                    add(s.query_ast, "api-callable", ci)
                    nroutes += 1
                except Exception:
                    refused[0] += 1
    # another process, another hash seed
    env = dict(os.environ)
    env["PYTHONHASHSEED"] = str(1000 + common.seed())
    inp = "".join(json.dumps({"id": ci, "src": s}) + "\n" for ci, s in sources.items())
    import func_adl
    p = subprocess.run([sys.executable, "-c", SUBPROC], input=inp, capture_output=True, text=True, env=env,
                       cwd=os.path.dirname(os.path.dirname(func_adl.__file__)))
    if p.returncode != 0:
        raise common.MachineryError("hash subprocess failed: " + p.stderr[-500:])
    for line in p.stdout.splitlines():
        o = json.loads(line)
        n1 = ast.parse(sources[o["id"]]).body[0].value
        table.append({"id": len(table) + 1, "t": codec.enc(n1), "h": o["h"], "ok": o["ok"], "route": "other-process",
                      "case": o["id"]})
    # wild traces: every calc_ast_hash call the repository's own tests make
    import wild
    nw = 0
    for r in wild.records(prop):
        if r["pass"] == "hash" and r["in"]["k"] not in ("opaque", "malformed"):
            table.append({"id": len(table) + 1, "t": r["in"], "h": r["h"], "route": "wild (repository tests)", "case": -1})
            nw += 1
    fams["wild (repository tests under the recorder)"] = {"hash_calls": nw, "suite": wild.suite_summary()}
    # large queries: one differing character placed at chosen offsets of the node dump (block / buffer boundaries of
    # whatever feeds the digest); the structure key of these rows is a digest of the dump (the terms are 10-70 kB)
    nb = 0
    for off in boundary_offsets(tier):
        pair = boundary_pair(off)
        if pair is None:
            continue
        for node in pair:
            dump = ast.dump(node)
            table.append({"id": len(table) + 1, "t": codec.T("opaque", s="large query"), "h": calc_ast_hash(node),
                          "tk": "sha256:" + hashlib.sha256(dump.encode("utf-8", "surrogatepass")).hexdigest(),
                          "route": f"large query, differing character at dump offset {off}", "case": -2})
        nb += 1
    fams["boundary"] = {"pairs": nb, "what": "two queries that differ in one digit of a constant located at a chosen "
                        "offset of ast.dump (multiples of 512 .. 65536 and their neighbours, up to 70000)"}
    for r in table:
        if "tk" not in r:
            r["tk"] = json.dumps(r["t"], separators=(",", ":"), sort_keys=True)
    # TLC decides
    d = tlcrun.fresh_dir(common.outdir(prop, "val"))
    inf = os.path.join(d, "table.ndjson")
    # tk: canonical text of the term - atomic for TLC (deep record comparison made the set construction quadratic)
    codec.write_ndjson(inf, [{"id": r["id"], "tk": r["tk"], "h": r["h"], "ok": r.get("ok", True)} for r in table])
    cfg = os.path.join(d, "trace.cfg")
    tlcrun.write_cfg(cfg)
    outf = os.path.join(d, "verdict.ndjson")
    st = tlcrun.run("TraceHash", cfg, d, env={"IN_FILE": inf, "OUT_FILE": outf}, workers=1, xmx="8g")
    rep.add_tlc(st)
    v = codec.load_ndjson(outf)[0]
    byid = {r["id"]: r for r in table}
    rep.traces = len(table)
    rep.evaluations = len(table)
    rep.nontrivial = v["structures"]
    rep.extra.update(api_routes_refused=refused[0], families=fams, table_rows=len(table), distinct_structures=v["structures"],
                     routes=sorted({r["route"] for r in table}), verdict={"stable": v["stable"], "sensitive": v["sensitive"], "defined": v["defined"]})
    for r in table[:4] + table[-2:]:
        rep.sample({"route": r["route"], "query": sources.get(r["case"], ""), "hash": r["h"]})
    # TLC decided; the harness only looks up a witness pair for the replay file
    if not v["defined"]:
        bad = [r for r in table if not r.get("ok", True)]
        if not bad:
            raise common.MachineryError("TLC says not Defined but no witness found")
        r = bad[0]
        rep.reject("defined", "Defined", {"property": prop, "clause": "Defined: calc_ast_hash raised instead of returning a hash",
                                          "route": r["route"], "raised": r["h"], "source": sources.get(r["case"], ""),
                                          "term": r["t"], "rows_without_hash": len(bad)})
    if not v["stable"]:
        seen = {}
        for r in table:
            k = r["tk"]
            if k in seen and seen[k]["h"] != r["h"]:
                a, b = seen[k], r
                rep.reject("stable", "Stable", {"property": prop, "clause": "Stable: same structure, different hash",
                                                "a": {k2: a[k2] for k2 in ("route", "h")},
                                                "b": {k2: b[k2] for k2 in ("route", "h")},
                                                "source": sources.get(a["case"], ""), "term": r["t"]})
                break
            seen.setdefault(k, r)
        else:
            raise common.MachineryError("TLC says not Stable but no witness found")
    if not v["sensitive"]:
        seen = {}
        for r in table:
            k = r["tk"]
            if r["h"] in seen and seen[r["h"]][0] != k:
                a, b = seen[r["h"]][1], r
                rep.reject("sensitive", "Sensitive", {"property": prop,
                                                      "clause": "Sensitive: different structure, same hash",
                                                      "a": {k2: a[k2] for k2 in ("route", "h", "t")},
                                                      "b": {k2: b[k2] for k2 in ("route", "h", "t")},
                                                      "source_a": sources.get(a["case"], ""),
                                                      "source_b": sources.get(b["case"], "")})
                break
            seen.setdefault(r["h"], (k, r))
        else:
            raise common.MachineryError("TLC says not Sensitive but no witness found")
    rep.rule = ("cases = base queries derived by spec/GenHash.tla plus every single edit (operator, name, constant value, "
                "constant type, argument order, nesting, parameter name) of each; every case is built along all routes "
                "listed under coverage.routes and the real (term(ast), calc_ast_hash(ast)) pairs are judged by TLC "
                "(TraceHash: Stable and Sensitive over the whole table); distinct_nontrivial = distinct structures in "
                "the table")
    rep.assumptions = ["structural identity = equality of the codec term of the AST (fields only; ctx and positions "
                       "are not structure)", "md5 itself is not modelled"]
    return rep.finish()
