"""C02 / C14 / C18: simplify_chained_calls, decided by TracePass.JudgeSimplify.

spec -> code : programs are TLC behaviours of the Grammar derivation machine
code -> spec : (in, out | exc) pairs recorded from the real simplifier are validated
               by TLC against the relational specification (Scoped, Preserve, Total,
               WellFormed, Compiles, IndexErrorDue, Shape).
"""

import codec
import common
import replay_passes

# clause -> owning property
OWNER = {
    "Scoped": "C02", "Preserve": "C02",
    "Total": "C18", "WellFormed": "C18", "Compiles": "C18", "IndexErrorNotDue": "C18",
    "Shape": "C14",
}

PLANS = {
    # (name, family, budget, max programs kept (None = all), pass)
    "C02": {
        "quick": [("core3", "core", 3, 9000, "simplify"), ("beta3", "beta", 3, 8000, "simplify"),
                  ("fuse3", "fuse", 3, None, "simplify"), ("expr3", "expr", 3, 4000, "simplify"),
                  ("chain1_4", "chain1", 4, 3000, "simplify"), ("fuse1_3", "fuse1", 3, 4000, "simplify_m"),
                  ("betad3", "betad", 3, 4000, "simplify"), ("corea3", "corea", 3, 4000, "simplify_fresh"),
                  ("fused3", "fused", 3, 4000, "simplify"), ("betaw3", "betaw", 3, None, "simplify"),
                  ("betads4", "betads", 4, None, "simplify"), ("betav2", "betav", 2, None, "simplify"),
                  ("betadn4", "betadn", 4, None, "simplify")],
        "thorough": [("core3", "core", 3, None, "simplify"), ("beta3", "beta", 3, None, "simplify"),
                     ("betav3", "betav", 3, None, "simplify"),
                     ("corea3", "corea", 3, None, "simplify_fresh"),
                     ("fuse4", "fuse", 4, 120000, "simplify"), ("expr3", "expr", 3, None, "simplify"),
                     ("chain4", "chain", 4, 60000, "simplify"), ("fuse1_4", "fuse1", 4, 80000, "simplify_m"),
                     ("chain1_5", "chain1", 5, 60000, "simplify"), ("betad3", "betad", 3, None, "simplify"),
                     ("fused3", "fused", 3, None, "simplify"), ("betaw4", "betaw", 4, 60000, "simplify"),
                     ("betads4", "betads", 4, None, "simplify"), ("betadn4", "betadn", 4, None, "simplify"),
                     ("betadn5", "betadn", 5, 80000, "simplify")],     # (betad budget 4: > 18M derivation states)
        "random": {"quick": (400, 7), "thorough": (6000, 8)},
    },
    "C18": {
        "quick": [("idx3", "idx", 3, 12000, "simplify"), ("core3", "core", 3, 4000, "simplify"),
                  ("beta3", "beta", 3, 3000, "simplify"), ("expr3", "expr", 3, 3000, "simplify"),
                  ("chainx4", "chainx", 4, 8000, "simplify"), ("corea3", "corea", 3, 3000, "simplify_fresh"),
                  ("betav2", "betav", 2, None, "simplify")],
        "thorough": [("idx3", "idx", 3, None, "simplify"), ("core3", "core", 3, None, "simplify"),
                     ("beta3", "beta", 3, None, "simplify"), ("expr3", "expr", 3, None, "simplify"),
                     ("fuse4", "fuse", 4, 60000, "simplify"), ("chainx4", "chainx", 4, None, "simplify"),
                     ("betav3", "betav", 3, None, "simplify"),
                     ("chainx5", "chainx", 5, 80000, "simplify")],
        "random": {"quick": (400, 7), "thorough": (6000, 8)},
    },
    "C14": {
        "quick": [("chain1_4", "chain1", 4, None, "simplify"), ("chainp6", "chainp", 6, 8000, "simplify"),
                  ("chainf5", "chainf", 5, None, "simplify")],
        "thorough": [("chain1_5", "chain1", 5, None, "simplify"), ("chain4", "chain", 4, None, "simplify"),
                     ("chainp6", "chainp", 6, None, "simplify"), ("chainp7", "chainp", 7, 150000, "simplify"),
                     ("chainf5", "chainf", 5, None, "simplify"), ("chainf6", "chainf", 6, 100000, "simplify")],
        "random": {"quick": (0, 0), "thorough": (0, 0)},
    },
}

PACK = {"tuple", "list", "dict"}


def has_kind(t, kinds):
    if t["k"] in kinds:
        return True
    return any(has_kind(c, kinds) for c in t["a"])


def count_kind(t, kinds):
    return (1 if t["k"] in kinds else 0) + sum(count_kind(c, kinds) for c in t["a"])


def _has_packaged_seq(t):
    if t["k"] == "tuple" and t["a"] and t["a"][0]["k"] == "call":
        return True
    return any(_has_packaged_seq(c) for c in t["a"])


def _select_over_projection(t):
    if t["k"] == "call" and t["a"][0]["k"] == "name" and t["a"][0]["s"] in ("Select", "SelectMany", "Where") \
            and t["n"] == 2 and t["a"][1]["k"] == "sub":
        return True
    return any(_select_over_projection(c) for c in t["a"])


def nested_select_over_package(t):
    return _has_packaged_seq(t) and _select_over_projection(t)


def _names(t, acc):
    if t["k"] == "name":
        acc.add(t["s"])
    for c in t["a"]:
        _names(c, acc)
    return acc


def param_named_in_argument(t):
    """a called lambda one of whose parameter names also occurs in one of the call's arguments (sampling class only)"""
    if t["k"] == "call" and t["a"][0]["k"] == "lam":
        ps = set(t["a"][0]["p"])
        for arg in t["a"][1:]:
            if ps & _names(arg, set()):
                return True
    return any(param_named_in_argument(c) for c in t["a"])


def priority(prop, fam, t):
    """classes of programs the stratified sampler always keeps whole"""
    if prop == "C14":
        return nested_select_over_package(t)
    if fam == "betads":
        return param_named_in_argument(t)
    return False


def _fetch_family(arg):
    """TLC derives the programs of one family; the stratified sub-sample that will be replayed is returned"""
    prop, (name, fam, budget, keep, pass_name), workers = arg
    progs, st = common.gen_programs(prop, name, fam, budget, workers=workers)
    total = len(progs)
    if prop == "C14":
        # the property's antecedent: some earlier stage packages values
        progs = [p for p in progs if has_kind(p, PACK)]
    if keep is not None:
        # the class the property singles out - a nested Select over a packaged sequence - is always kept whole
        prio = [p for p in progs if priority(prop, fam, p)]
        rest = [p for p in progs if not priority(prop, fam, p)]
        progs = prio + common.subsample_stratified(rest, max(0, keep - len(prio)), salt=name)
    st = {k: v for k, v in st.items() if k not in ("stdout", "output")}
    return progs, total, st


def run(prop, tier):
    rep = common.Report(prop, tier)
    plan = PLANS[prop][tier]
    # design level: the specification's own rewriting system (spec/Simplify.tla), model-checked by TLC
    import design_simplify
    design_simplify.run(prop, tier, rep)
    fam_counts = {}
    counts = {}
    other = {}
    state = {"next_id": 0}

    def judge_batch(jobs, recs):
        """TLC validates one family's recorded pairs; verdicts are folded into the report (one family at a time keeps
        the memory of the thorough tiers bounded by the largest family)"""
        vrecs = [{"id": r["id"], "pass": "simplify", "in": r["in"], "out": r["out"], "exc": r["exc"],
                  "flags": {"compiles": r["flags"]["compiles"], "shape": r["flags"]["shape"]}} for r in recs]
        if not vrecs:
            return
        verdicts, vst = common.validate(prop, "simplify", "TracePass", vrecs)
        rep.add_tlc(vst)
        rep.traces += len(vrecs)
        rep.evaluations += len(vrecs)
        byid = {r["id"]: r for r in recs}
        jobby = {j[0]: j for j in jobs}
        for cid, v in sorted(verdicts.items()):
            key = v["v"] if v["v"] != "REJECT" else "REJECT:" + v["clause"]
            counts[key] = counts.get(key, 0) + 1
            r = byid[cid]
            if v["v"] == "ACCEPT" and v["nontrivial"] and v["changed"]:
                rep.nontrivial += 1
                if prop != "C14" or count_kind(r["in"], PACK) > 0:
                    rep.sample({"in": codec.src(r["in"]),
                                "out": codec.src(r["out"]) if r["exc"] == "" else r["exc"]})
            if v["v"] == "REJECT":
                owner = OWNER.get(v["clause"], prop)
                # in the projection family "semantically intact" is part of C18 itself
                if owner == prop or (prop == "C18" and v["clause"] in ("Preserve", "Scoped")):
                    replay = {"property": prop, "pass": jobby[cid][1], "case": jobby[cid][2],
                              "flags": jobby[cid][3], "source": codec.src(r["in"]),
                              "observed": (codec.src(r["out"]) if r["exc"] == "" and r["flags"]["compiles"]
                                           else (r["exc"] or "malformed output")),
                              "verdict": v}
                    rep.reject(cid, v["clause"], replay)
                else:
                    other[owner + ":" + v["clause"]] = other.get(owner + ":" + v["clause"], 0) + 1

    pending = []        # jobs not yet replayed and judged
    FLUSH = 60000       # programs per replay + validation batch: bounds the memory of the thorough tiers

    def flush():
        if pending:
            judge_batch(pending, replay_passes.run_many(pending))
            del pending[:]

    def do_family(name, progs, total, budget, exhaustive, pass_name):
        for p in progs:
            pending.append((state["next_id"], pass_name, p, {"shape": prop == "C14"}))
            state["next_id"] += 1
        fam_counts[name] = {"generated": total, "replayed": len(progs), "budget": budget, "exhaustive": exhaustive}
        if len(pending) >= FLUSH:
            flush()

    if tier == "quick":
        # the families are generated (TLC), loaded and sub-sampled side by side, each by a forked worker
        import multiprocessing
        with multiprocessing.get_context("fork").Pool(min(6, len(plan))) as pool:
            fetched = pool.map(_fetch_family, [(prop, e, 4) for e in plan])
    else:
        fetched = (_fetch_family((prop, e, 16)) for e in plan)     # one at a time: memory
    for (name, fam, budget, keep, pass_name), (progs, total, st) in zip(plan, fetched):
        rep.add_tlc(st)
        do_family(name, progs, total, budget, keep is None or total <= keep, pass_name)
        del progs
    nrand, rb = PLANS[prop]["random"][tier]
    if nrand:
        progs, st = common.gen_programs(
            prop, "rand", PLANS[prop].get("random_family", "all"), rb, simulate=f"num={max(1, nrand // 16)}",
            extra_args=["-depth", "80", "-seed", str(common.seed() + 1)])
        rep.add_tlc(st)
        total = len(progs)
        if prop == "C14":
            progs = [p for p in progs if has_kind(p, PACK)]
        progs = common.subsample_stratified(progs, nrand, salt="rand")
        do_family("random", progs, total, rb, False, "simplify")
    # wild traces: the simplifier calls the repository's own tests make, recorded under FUNC_ADL_VERIF=1
    if prop in ("C02", "C18"):
        import wild
        jobs = list(pending)
        recs = replay_passes.run_many(pending) if pending else []
        del pending[:]
        for w in wild.pass_records(prop, "simplify", state["next_id"]):
            if w["in"]["k"] in ("opaque", "malformed") or (w["exc"] == "" and w["out"]["k"] in ("opaque", "malformed")):
                continue
            nid = state["next_id"]
            state["next_id"] += 1
            jobs.append((nid, "simplify", w["in"], {"shape": False}))
            recs.append({"id": nid, "in": w["in"], "out": w["out"], "exc": w["exc"],
                         "flags": {"compiles": w["flags"]["compiles"], "shape": False}})
        fam_counts["wild (repository tests under the recorder)"] = {
            "generated": len(recs), "replayed": len(recs), "budget": 0, "exhaustive": True, "suite": wild.suite_summary()}
        judge_batch(jobs, recs)
    flush()
    rep.extra.update(families=fam_counts, verdicts=counts, rejections_owned_by_other_properties=other)
    rep.rule = ("programs = complete derivations of spec/Grammar.tla (sorted, scoped, budgeted; TLC BFS "
                "exhaustive per family/budget, plus seeded -simulate walks); each is run through the real "
                "simplify_chained_calls and the recorded pair is judged by TLC (TracePass.JudgeSimplify); "
                "non-trivial = the original evaluates to a non-empty, error-free value on some model "
                "dataset AND the simplifier changed the term")
    rep.exhaustive = all(f["exhaustive"] for f in fam_counts.values())
    rep.assumptions = ["Sem.Eval is the meaning of queries (cross-checked against CPython by the C01 check)",
                       "5 model datasets (empty, no jets, 0/1/2 jets and tracks, shifted values, all non-empty)",
                       "integer/boolean fragment; bounded budgets listed under coverage.families"]
    if prop == "C02":
        # the name stack the simplifier's scoping rests on: spec/CallStack.tla, design check + conformance
        import callstack
        callstack.component(prop, tier, rep)
    return rep.finish()
