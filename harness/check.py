"""Entry point:  check.py <Cxx|setup|selftest> [--tier quick|thorough] [--replay FILE]"""
import argparse
import glob
import os
import sys

sys.path.insert(0, os.path.dirname(os.path.abspath(__file__)))
os.environ.setdefault("PYTHONHASHSEED", "0")

import common  # noqa: E402
import tlcrun  # noqa: E402


def do_setup():
    bad = 0
    for f in sorted(glob.glob(os.path.join(tlcrun.SPEC_DIR, "*.tla"))):
        ok, out = tlcrun.sany(os.path.basename(f))
        if not ok:
            bad += 1
            print("SANY failed for", f)
            print(out[-2000:])
    print("setup:", "ok" if not bad else f"{bad} modules failed")
    return 0 if not bad else 2


def main():
    ap = argparse.ArgumentParser()
    ap.add_argument("what")
    ap.add_argument("--tier", default=None)
    ap.add_argument("--replay", default=None)
    a = ap.parse_args()
    if a.what == "setup":
        return do_setup()
    if a.what == "selftest":
        import selftest
        return selftest.run()
    tier = a.tier or common.tier_from_env()
    if a.what == "utils":          # extra check, not one of the listed properties (evidence/UTILS.json)
        import utils_extra
        try:
            return utils_extra.run(tier)
        except (common.MachineryError, tlcrun.TLCError) as e:
            print(f"MACHINERY-FAILURE utils: {e}")
            return 2
    prop = a.what.upper()
    try:
        if prop in ("C02", "C14", "C18"):
            import props_simplify
            return props_simplify.run(prop, tier)
        if prop in ("C15", "C17", "C19"):
            import props_passes
            return props_passes.run(prop, tier)
        if prop in ("C11", "C12", "C16"):
            import props_streams
            return props_streams.run(prop, tier)
        if prop == "C20":
            import props_hash
            return props_hash.run(prop, tier)
        if prop == "C10":
            import props_untyped
            return props_untyped.run(prop, tier)
        if prop == "C07":
            import props_typed
            return props_typed.run_c07(prop, tier)
        if prop == "C08":
            import props_typed
            return props_typed.run_c08(prop, tier)
        if prop == "C09":
            import props_typed
            return props_typed.run_c09(prop, tier)
        if prop == "C13":
            import props_embed
            return props_embed.run(prop, tier)
        if prop == "C06":
            import props_sugar
            return props_sugar.run(prop, tier)
        if prop == "C05":
            import props_helpers
            return props_helpers.run(prop, tier)
        if prop == "C04":
            import props_capture
            return props_capture.run(prop, tier)
        if prop == "C03":
            import props_source
            return props_source.run(prop, tier)
        if prop == "C01":
            import props_e2e
            return props_e2e.run(prop, tier)
        print("unknown property", prop)
        return 2
    except (common.MachineryError, tlcrun.TLCError) as e:
        print(f"MACHINERY-FAILURE property={prop}: {e}")
        return 2
    except Exception as e:      # a bug of the harness is never a verdict
        import traceback
        traceback.print_exc()
        print(f"MACHINERY-FAILURE property={prop}: {type(e).__name__}: {e}")
        return 2


if __name__ == "__main__":
    sys.exit(main())
