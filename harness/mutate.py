"""Mutation campaign (development tool, not a registered check).

Generates single-edit mutants of func_adl/*.py (comparison / boolean / constant / statement-deletion / loop-order
operators on the AST), keeps those that still pass the repository's own 412 tests ("survivors of the test suite")
and runs the quick tiers of the checks that bind the mutated file on each survivor.  A survivor that no check
rejects is either an equivalent mutant / outside the listed properties, or a gap in the generators: those are
triaged by hand (DESIGN.md 11.7).  Everything happens in scratch copies under /tmp/mut (removed at the end);
/repo is never touched.

  mutate.py gen                      -> /tmp/mut/mutants.json (all sites)
  mutate.py tests [-j N]             -> runs the test suite on every mutant, records survivors
  mutate.py checks [-j N] [--limit K] [--only file.py]  -> runs the mapped checks on survivors
  mutate.py report                   -> prints / writes /verif/mutation/summary.json
"""
import ast
import copy
import json
import os
import random
import shutil
import subprocess
import sys
import time
from concurrent.futures import ThreadPoolExecutor

ROOT = "/tmp/mut"
REPO = os.path.join(ROOT, "base")  # pristine snapshot of /repo taken by `gen`
VERIF = os.path.dirname(os.path.dirname(os.path.abspath(__file__)))
FILES = ["func_adl/ast/function_simplifier.py", "func_adl/ast/call_stack.py", "func_adl/ast/aggregate_shortcuts.py",
         "func_adl/ast/func_adl_ast_utils.py", "func_adl/ast/meta_data.py", "func_adl/ast/syntatic_sugar.py",
         "func_adl/util_ast.py", "func_adl/util_types.py", "func_adl/type_based_replacement.py",
         "func_adl/object_stream.py", "func_adl/event_dataset.py"]
CHECKS = {
    "function_simplifier.py": ["C02", "C18", "C14", "C01"],
    "call_stack.py": ["C02", "C18", "C14", "C05"],
    "aggregate_shortcuts.py": ["C19", "C01"],
    "func_adl_ast_utils.py": ["C17", "C19", "C02", "C15", "C01"],
    "meta_data.py": ["C15", "C16", "C12", "C09"],
    "syntatic_sugar.py": ["C06", "C05"],
    "util_ast.py": ["C13", "C04", "C05", "C03", "C10", "C06", "C20", "C12", "C01"],
    "util_types.py": ["C07", "C08", "C09", "C10"],
    "type_based_replacement.py": ["C09", "C07", "C08", "C10", "C13", "C11"],
    "object_stream.py": ["C13", "C16", "C12", "C11", "C10", "C01"],
    "event_dataset.py": ["C12", "C11", "C13"],
}
CMP = {ast.Eq: ast.NotEq, ast.NotEq: ast.Eq, ast.Lt: ast.LtE, ast.LtE: ast.Lt, ast.Gt: ast.GtE, ast.GtE: ast.Gt,
       ast.Is: ast.IsNot, ast.IsNot: ast.Is, ast.In: ast.NotIn, ast.NotIn: ast.In}


class Mut(ast.NodeTransformer):
    """Visits sites in a fixed order; applies the edit at site number `target` (or just counts)."""

    def __init__(self, target=-1):
        self.n = 0
        self.target = target
        self.desc = None
        self.func = []

    def site(self, node, what):
        hit = self.n == self.target
        self.n += 1
        if hit:
            self.desc = {"line": getattr(node, "lineno", 0), "op": what, "func": ".".join(self.func)}
        return hit

    # -- scoping / skipped regions
    def visit_FunctionDef(self, node):
        if node.name in ("__repr__", "__str__"):
            return node
        self.func.append(node.name)
        node.body = self.stmts(node.body)
        self.func.pop()
        return node

    visit_AsyncFunctionDef = visit_FunctionDef

    def visit_ClassDef(self, node):
        self.func.append(node.name)
        node.body = self.stmts(node.body)
        self.func.pop()
        return node

    def visit_Raise(self, node):
        return node  # messages

    def visit_Assert(self, node):
        return node

    def visit_AnnAssign(self, node):
        if node.value is not None:
            node.value = self.visit(node.value)
        return node

    def visit_arguments(self, node):
        return node

    def visit_Call(self, node):
        f = node.func
        if isinstance(f, ast.Attribute) and isinstance(f.value, ast.Name) and f.value.id in ("logging", "warnings", "logger"):
            return node
        if isinstance(f, ast.Name) and f.id in ("cast", "TypeVar", "print"):
            return node
        return self.generic_visit(node)

    def stmts(self, body):
        out = []
        for i, s in enumerate(body):
            is_doc = i == 0 and isinstance(s, ast.Expr) and isinstance(s.value, ast.Constant) and isinstance(s.value.value, str)
            if is_doc:
                out.append(s)
                continue
            if isinstance(s, (ast.Expr, ast.Assign, ast.AugAssign)) and not self._is_log(s):
                if self.site(s, "delete-stmt"):
                    out.append(ast.copy_location(ast.Pass(), s))
                    continue
            if isinstance(s, ast.Return) and s.value is not None and not isinstance(s.value, ast.Constant):
                pass
            if isinstance(s, ast.Continue):
                if self.site(s, "continue->break"):
                    out.append(ast.copy_location(ast.Break(), s))
                    continue
            elif isinstance(s, ast.Break):
                if self.site(s, "break->continue"):
                    out.append(ast.copy_location(ast.Continue(), s))
                    continue
            out.append(self.visit(s))
        return out

    @staticmethod
    def _is_log(s):
        v = getattr(s, "value", None)
        return isinstance(v, ast.Call) and isinstance(v.func, ast.Attribute) and isinstance(v.func.value, ast.Name) \
            and v.func.value.id in ("logging", "warnings")

    def generic_visit(self, node):
        for field, old in ast.iter_fields(node):
            if field in ("body", "orelse", "finalbody") and isinstance(old, list) and old and isinstance(old[0], ast.stmt):
                setattr(node, field, self.stmts(old))
            elif field in ("annotation", "returns", "decorator_list"):
                continue
            elif isinstance(old, list):
                new = []
                for v in old:
                    if isinstance(v, ast.AST):
                        v = self.visit(v)
                    new.append(v)
                setattr(node, field, new)
            elif isinstance(old, ast.AST):
                setattr(node, field, self.visit(old))
        return node

    # -- operators
    def visit_Compare(self, node):
        node = self.generic_visit(node)
        for i, op in enumerate(node.ops):
            if type(op) in CMP and self.site(node, f"cmp {type(op).__name__}->{CMP[type(op)].__name__}"):
                node.ops[i] = CMP[type(op)]()
        return node

    def visit_BoolOp(self, node):
        node = self.generic_visit(node)
        if self.site(node, "and<->or"):
            node.op = ast.Or() if isinstance(node.op, ast.And) else ast.And()
        elif len(node.values) >= 2 and self.site(node, "drop-last-operand"):
            node.values = node.values[:-1]
            if len(node.values) == 1:
                return node.values[0]
        return node

    def visit_UnaryOp(self, node):
        node = self.generic_visit(node)
        if isinstance(node.op, ast.Not) and self.site(node, "drop-not"):
            return node.operand
        return node

    def _neg(self, node, what):
        if self.site(node, what):
            node.test = ast.UnaryOp(op=ast.Not(), operand=node.test)
        return node

    def visit_If(self, node):
        node = self.generic_visit(node)
        return self._neg(node, "negate-if")

    def visit_While(self, node):
        node = self.generic_visit(node)
        return self._neg(node, "negate-while")

    def visit_IfExp(self, node):
        node = self.generic_visit(node)
        return self._neg(node, "negate-ifexp")

    def visit_Constant(self, node):
        v = node.value
        if isinstance(v, bool):
            if self.site(node, f"const {v}->{not v}"):
                return ast.copy_location(ast.Constant(value=not v), node)
        elif isinstance(v, int):
            if self.site(node, f"const {v}->{v + 1}"):
                return ast.copy_location(ast.Constant(value=v + 1), node)
        return node

    def visit_BinOp(self, node):
        node = self.generic_visit(node)
        if isinstance(node.op, (ast.Add, ast.Sub)) and not isinstance(node.left, ast.Constant) \
                and not (isinstance(node.left, ast.JoinedStr) or isinstance(node.right, ast.JoinedStr)):
            if self.site(node, "add<->sub"):
                node.op = ast.Sub() if isinstance(node.op, ast.Add) else ast.Add()
        return node

    def visit_For(self, node):
        node = self.generic_visit(node)
        if self.site(node, "for-reversed"):
            node.iter = ast.Call(func=ast.Name(id="reversed", ctx=ast.Load()),
                                 args=[ast.Call(func=ast.Name(id="list", ctx=ast.Load()), args=[node.iter], keywords=[])],
                                 keywords=[])
        elif self.site(node, "for-skip-first"):
            node.iter = ast.Subscript(value=ast.Call(func=ast.Name(id="list", ctx=ast.Load()), args=[node.iter], keywords=[]),
                                      slice=ast.Slice(lower=ast.Constant(value=1)), ctx=ast.Load())
        return node

    def visit_Return(self, node):
        if node.value is not None:
            node.value = self.visit(node.value)
        return node

    def visit_JoinedStr(self, node):
        return node


def count_sites(src):
    m = Mut(-1)
    m.visit(ast.parse(src))
    return m.n


def make(src, k):
    m = Mut(k)
    tree = m.visit(ast.parse(src))
    ast.fix_missing_locations(tree)
    return ast.unparse(tree) + "\n", m.desc


def cmd_gen():
    os.makedirs(ROOT, exist_ok=True)
    if os.path.isdir(REPO):
        shutil.rmtree(REPO)
    shutil.copytree("/repo", REPO, ignore=shutil.ignore_patterns(".git", "__pycache__", ".pytest_cache"))
    muts = []
    for f in FILES:
        src = open(os.path.join(REPO, f)).read()
        n = count_sites(src)
        for k in range(n):
            try:
                new, desc = make(src, k)
                compile(new, f, "exec")
            except Exception as e:  # noqa
                continue
            muts.append({"id": f"{os.path.basename(f)[:-3]}#{k}", "file": f, "site": k, **desc})
    json.dump(muts, open(os.path.join(ROOT, "mutants.json"), "w"), indent=0)
    print("mutants:", len(muts))
    by = {}
    for m in muts:
        by[m["file"]] = by.get(m["file"], 0) + 1
    print(by)


def workdir(slot):
    d = os.path.join(ROOT, f"w{slot}")
    if not os.path.isdir(d):
        shutil.copytree(REPO, d, ignore=shutil.ignore_patterns(".git", "__pycache__", ".pytest_cache"))
    return d


def install(m, d):
    """put mutant m into work dir d (all other files pristine)"""
    for f in FILES:
        shutil.copyfile(os.path.join(REPO, f), os.path.join(d, f))
    src = open(os.path.join(REPO, m["file"])).read()
    new, _ = make(src, m["site"])
    open(os.path.join(d, m["file"]), "w").write(new)


def run_tests(m, slot):
    d = workdir(slot)
    install(m, d)
    env = dict(os.environ, PYTHONPATH=d, PYTHONDONTWRITEBYTECODE="1")
    env.pop("FUNC_ADL_VERIF", None)
    try:
        p = subprocess.run(["/venv/bin/python", "-m", "pytest", "-q", "-x", "-p", "no:cacheprovider", "--timeout=120"],
                           cwd=d, env=env, capture_output=True, text=True, timeout=600)
        tail = p.stdout.strip().splitlines()[-1] if p.stdout.strip() else ""
        return p.returncode == 0 and "412 passed" in tail, tail
    except subprocess.TimeoutExpired:
        return False, "timeout"


def pool_map(fn, items, j):
    import queue
    slots = queue.Queue()
    for s in range(j):
        slots.put(s)

    def go(it):
        s = slots.get()
        try:
            return fn(it, s)
        finally:
            slots.put(s)
    with ThreadPoolExecutor(max_workers=j) as ex:
        return list(ex.map(go, items))


def cmd_tests(j, only=None):
    muts = json.load(open(os.path.join(ROOT, "mutants.json")))
    if only:
        muts = [m for m in muts if os.path.basename(m["file"]) in only]
    # baseline: the unparsed, unmutated files must pass
    t0 = time.time()
    res_path = os.path.join(ROOT, "tests.json")
    res = json.load(open(res_path)) if os.path.exists(res_path) else {}
    todo = [m for m in muts if m["id"] not in res]

    def one(m, slot):
        ok, tail = run_tests(m, slot)
        return m["id"], ok, tail
    done = 0
    for chunk in range(0, len(todo), 64):
        for mid, ok, tail in pool_map(one, todo[chunk:chunk + 64], j):
            res[mid] = {"survives": ok, "tail": tail[-80:]}
        done += 64
        json.dump(res, open(res_path, "w"))
        print(f"{min(done, len(todo))}/{len(todo)} survivors={sum(1 for v in res.values() if v['survives'])} {time.time() - t0:.0f}s", flush=True)


def verif_copy(slot):
    d = os.path.join(ROOT, f"v{slot}")
    if os.path.isdir(d):
        shutil.rmtree(d)
    shutil.copytree(VERIF, d, ignore=shutil.ignore_patterns(".git", "out", "seeded", "mutation", "__pycache__", "out_thorough*"))
    return d


def run_checks(m, slot, vdirs):
    d = workdir(100 + slot)
    install(m, d)
    v = vdirs[slot]
    env = dict(os.environ, PYTHONPATH=d, PYTHONDONTWRITEBYTECODE="1")
    out = {"id": m["id"], "checks": {}}
    for c in CHECKS[os.path.basename(m["file"])]:
        t0 = time.time()
        try:
            p = subprocess.run([os.path.join(v, "bin", "check"), c, "--tier", "quick"], env=env, capture_output=True,
                               text=True, timeout=1500)
            rc = p.returncode
            lines = [x for x in p.stdout.splitlines() if x.startswith("VIOLATION")]
            summ = [x for x in p.stdout.splitlines() if x.startswith("[" + c + "]")]
            err = p.stderr.strip().splitlines()[-1:] if rc not in (0, 1) else []
        except subprocess.TimeoutExpired:
            rc, lines, summ, err = 124, [], [], ["timeout"]
        out["checks"][c] = {"rc": rc, "violations": len(lines), "summary": summ[-1] if summ else "", "err": err,
                            "wall": round(time.time() - t0)}
        if rc != 0:
            out["killed_by"] = c
            break
    return out


def cmd_checks(j, limit, only):
    muts = {m["id"]: m for m in json.load(open(os.path.join(ROOT, "mutants.json")))}
    tests = json.load(open(os.path.join(ROOT, "tests.json")))
    surv = [muts[k] for k, v in tests.items() if v["survives"] and k in muts]
    if only:
        surv = [m for m in surv if os.path.basename(m["file"]) in only]
    res_path = os.path.join(ROOT, "checks.json")
    res = json.load(open(res_path)) if os.path.exists(res_path) else {}
    rnd = random.Random(7)
    rnd.shuffle(surv)
    todo = [m for m in surv if m["id"] not in res][:limit]
    vdirs = [verif_copy(s) for s in range(j)]
    t0 = time.time()
    for chunk in range(0, len(todo), j):
        for r in pool_map(lambda m, s: run_checks(m, s, vdirs), todo[chunk:chunk + j], j):
            res[r["id"]] = r
            print(r["id"], muts[r["id"]]["op"], "line", muts[r["id"]]["line"], "->", r.get("killed_by", "NOT DETECTED"), flush=True)
        json.dump(res, open(res_path, "w"), indent=0)
        print(f"  {min(chunk + j, len(todo))}/{len(todo)} {time.time() - t0:.0f}s", flush=True)


def cmd_report():
    muts = {m["id"]: m for m in json.load(open(os.path.join(ROOT, "mutants.json")))}
    tests = json.load(open(os.path.join(ROOT, "tests.json")))
    res = json.load(open(os.path.join(ROOT, "checks.json"))) if os.path.exists(os.path.join(ROOT, "checks.json")) else {}
    by = {}
    for k, m in muts.items():
        b = by.setdefault(os.path.basename(m["file"]), {"mutants": 0, "killed_by_tests": 0, "survive_tests": 0,
                                                       "checked": 0, "killed_by_checks": 0, "undetected": []})
        b["mutants"] += 1
        if k in tests:
            if tests[k]["survives"]:
                b["survive_tests"] += 1
            else:
                b["killed_by_tests"] += 1
        if k in res:
            b["checked"] += 1
            if "killed_by" in res[k]:
                b["killed_by_checks"] += 1
            else:
                b["undetected"].append({"id": k, "line": m["line"], "op": m["op"], "func": m["func"]})
    os.makedirs(os.path.join(VERIF, "mutation"), exist_ok=True)
    json.dump(by, open(os.path.join(VERIF, "mutation", "summary.json"), "w"), indent=1)
    for f, b in by.items():
        print(f, {k: v for k, v in b.items() if k != "undetected"}, "undetected:", len(b["undetected"]))


if __name__ == "__main__":
    cmd = sys.argv[1]
    args = sys.argv[2:]
    j = int(args[args.index("-j") + 1]) if "-j" in args else 8
    if cmd == "gen":
        cmd_gen()
    elif cmd == "tests":
        cmd_tests(j, args[args.index("--only") + 1].split(",") if "--only" in args else None)
    elif cmd == "checks":
        limit = int(args[args.index("--limit") + 1]) if "--limit" in args else 10 ** 9
        only = args[args.index("--only") + 1].split(",") if "--only" in args else None
        cmd_checks(j, limit, only)
    elif cmd == "report":
        cmd_report()
