"""Typed universes built from a signature case, and the placements (contexts) of a call site (C07)."""

import ast
import json
import zlib
import logging

import codec

PNAMES = ["a", "b", "c", "d"]

CONTEXTS = {
    0: ("depth 0, method on the stream's item", "evt",
        [("Select", "lambda e: e.m({A})")]),
    1: ("depth 1 through a collection operator", "jet",
        [("Select", "lambda e: e.jets().Select(lambda j: j.m({A}))")]),
    2: ("depth 2, inside a Where of a nested collection", "trk",
        [("Select", "lambda e: e.jets().Select(lambda j: j.trks().Where(lambda t: t.m({A}) > 0))")]),
    3: ("depth 1, inner lambda re-uses the outer parameter name; Evt.m has another signature", "jet",
        [("Select", "lambda e: e.jets().Select(lambda e: e.m({A}))")]),
    4: ("through a dictionary field of the previous stage", "jet",
        [("Select", "lambda e: {'js': e.jets()}"), ("Select", "lambda d: d.js.Select(lambda j: j.m({A}))")]),
    5: ("registered function at depth 1", "fn",
        [("Select", "lambda e: e.jets().Select(lambda j: {F}({A}))")]),
    6: ("method on First() of a collection", "jet",
        [("Select", "lambda e: e.jets().First().m({A})")]),
    7: ("SelectMany then Where on the stream", "jet",
        [("SelectMany", "lambda e: e.jets()"), ("Where", "lambda j: j.m({A}) > 0")]),
    8: ("depth 3", "hit",
        [("Select", "lambda e: e.jets().Select(lambda j: j.trks().Select(lambda t: t.hits().Select("
                    "lambda h: h.m({A}))))")]),
    9: ("registered function at depth 0", "fn",
        [("Select", "lambda e: {F}({A})")]),
    10: ("call on the outer parameter AFTER a nested lambda that re-uses its name (tuple element)", "evt",
         [("Select", "lambda e: (e.jets().Select(lambda e: e.m()), e.m({A}))")]),
    11: ("call on the outer parameter AFTER a nested lambda that re-uses its name (right operand)", "evt",
         [("Select", "lambda e: e.jets().Where(lambda e: e.m() > 0).Count() + e.m({A})")]),
    12: ("two typed call sites in one lambda, the other one on another class with the same method name", "evt",
         [("Select", "lambda e: {'a': e.jets().First().m(), 'b': e.m({A})}")]),
    13: ("the call site is itself an argument of another typed call that gets a default", "evt",
         [("Select", "lambda e: e.wrap(e.m({A}))")]),
    15: ("the nested operator's lambda is passed by keyword", "jet",
         [("Select", "lambda e: e.jets().Where(filter=lambda j: j.m({A}) > 0).Count()")]),
    16: ("the nested operator's lambda is passed by keyword (Select)", "jet",
         [("Select", "lambda e: e.jets().Select(f=lambda j: j.m({A}))")]),
    17: ("the same call twice in one body (as ONE shared ast node when the lambda is supplied as an ast)", "evt",
         [("Select", "lambda e: e.m({A}) + e.m({A})")]),
    18: ("a method NAMED like a collection operator (First) declared by the user's own Iterable subclass", "hitlist",
         [("Select", "lambda e: e.hitlist().First({A})")]),
    14: ("inside a conditional and a comparison chain in a Where of a nested collection", "jet",
         [("Select", "lambda e: e.jets().Where(lambda j: (j.m({A}) if j.m({A}) > 0 else 0) > 1).Count()")]),
}

_universes = {}


def sig_source(sig, with_self=True):
    ps = ["self"] if with_self else []
    for j in range(1, sig["n"] + 1):
        nm = PNAMES[j - 1]
        if sig.get("ko", 0) and j == sig["n"] - sig["ko"] + 1:
            ps.append("*")          # the parameters from here on are keyword-only
        if j <= sig["r"]:
            ps.append(f"{nm}: int")
        elif sig["dk"] == "int":
            ps.append(f"{nm}: int = {20 + j}")
        else:
            ps.append(f"{nm}: str = 'd{j}'")
    return ", ".join(ps)


def universe(sig, owner):
    """classes Hit/Trk/Jet/Evt where `owner`'s m() has the case's signature and every other m() has another one"""
    key = (sig["n"], sig["r"], sig["dk"], sig.get("ko", 0), owner)
    if key in _universes:
        return _universes[key]
    from func_adl import func_adl_callable  # noqa: F401
    other = "self, z: int = 99"
    fname = f"fn_{sig['n']}_{sig['r']}_{sig['dk']}_{sig.get('ko', 0)}"

    def msig(cls):
        return sig_source(sig) if cls == owner else other

    src = f"""
from typing import Iterable
from func_adl import func_adl_callable

class Hit:
    def m({msig('hit')}) -> int: ...

class Trk:
    def m({msig('trk')}) -> int: ...
    def hits(self) -> Iterable[Hit]: ...

class Jet:
    def m({msig('jet')}) -> int: ...
    def trks(self) -> Iterable[Trk]: ...

class HitList(Iterable[Hit]):
    def First({msig('hitlist')}) -> int: ...

class Evt:
    def m({msig('evt')}) -> int: ...
    def wrap(self, v: int, w: int = 77) -> int: ...
    def jets(self) -> Iterable[Jet]: ...
    def hitlist(self) -> HitList: ...

@func_adl_callable()
def {fname}({sig_source(sig, with_self=False)}) -> int: ...
"""
    ns = {}
    exec(compile(src, f"<universe {key}>", "exec"), ns)
    _universes[key] = (ns, fname)
    return _universes[key]


def args_source(sig, shape):
    parts = [str(10 + i) for i in range(1, shape["npos"] + 1)]
    for kw in shape["kws"]:
        j = PNAMES.index(kw) + 1
        parts.append(f"{kw}={30 + j}")
    return ", ".join(parts)


def python_bind(sig, shape):
    """spec honesty: what inspect.Signature.bind says about this case -> (ok, values)"""
    import inspect
    ns = {}
    exec(f"def f({sig_source(sig, with_self=False)}): ...", ns)
    s = inspect.signature(ns["f"])
    pos = [10 + i for i in range(1, shape["npos"] + 1)]
    kws = {kw: 30 + PNAMES.index(kw) + 1 for kw in shape["kws"]}
    try:
        b = s.bind(*pos, **kws)
    except TypeError:
        return False, []
    b.apply_defaults()
    return True, list(b.arguments.values())


def share_equal_calls(tree):
    """replace later structurally equal ast.Call nodes by the first such object (a DAG, as func_adl itself builds)"""
    seen = {}

    class Sh(ast.NodeTransformer):
        def visit_Call(self, node):
            node = self.generic_visit(node)
            return seen.setdefault(ast.dump(node), node)
    return Sh().visit(tree)


def run_case(cid, case):
    logging.disable(logging.WARNING)
    from func_adl import EventDataset
    sig, shape, ctx = case["sig"], case["shape"], case["ctx"]
    desc, owner, steps = CONTEXTS[ctx]
    ns, fname = universe(sig, owner if owner != "fn" else "none")

    class DS(EventDataset):
        def __init__(self):
            super().__init__(ns["Evt"])

        async def execute_result_async(self, a, title=None):
            return 0

    A = args_source(sig, shape)
    rec = {"id": cid, "kind": "call", "sig": sig, "shape": shape, "mname": fname if owner == "fn" else ("First" if owner == "hitlist" else "m"),
           "out": codec.T("absent"), "exc": "", "ctx": ctx, "source": ""}
    try:
        s = DS()
        for op, lam in steps:
            text = lam.replace("{A}", A).replace("{F}", fname)
            rec["source"] += f".{op}({text})"
            # lambdas are supplied alternately as source text and as an ast object; an ast with repeated calls has
            # them as ONE shared node every other time (what inlining a helper that uses its parameter twice yields)
            mode = zlib.crc32(json.dumps(case, sort_keys=True).encode()) % 4
            if mode < 2:
                s = getattr(s, op)(text)
            else:
                la = ast.parse(text).body[0].value
                if mode == 3:
                    la = share_equal_calls(la)
                s = getattr(s, op)(la)
        rec["out"] = codec.enc(s.query_ast.args[1])
        rec["item_type"] = str(s.item_type)
    except Exception as e:
        rec["exc"] = type(e).__name__
        rec["msg"] = str(e)[:120]
    return rec


# ----------------------------------------------------------------------------------------------
# C08: universe generated from the class model exported by TLC (spec/TypeFollow.tla Universe)
def _ty_src(t):
    if t["k"] == "tv":
        return t["s"]
    if t["k"] == "ty":
        if t["a"]:
            return t["s"] + "[" + ", ".join(_ty_src(a) for a in t["a"]) + "]"
        return t["s"]
    raise ValueError(t["k"])


def _tvars_in_order(ty, acc=None):
    acc = [] if acc is None else acc
    if ty["k"] == "tv" and ty["s"] not in acc:
        acc.append(ty["s"])
    for a in ty["a"]:
        _tvars_in_order(a, acc)
    return acc


def universe_source(classes):
    tvars = sorted({p for c in classes for p in c["params"]})
    lines = ["import collections.abc", "import typing", "from dataclasses import dataclass", "from typing import Any, Generic, Iterable, TypeVar",
             "from func_adl import register_func_adl_os_collection",
             "from func_adl.type_based_replacement import ObjectStreamInternalMethods", ""]
    for v in tvars + ["CT"]:
        lines.append(f'{v} = TypeVar("{v}")')
    lines.append("")
    for c in classes:
        if c["base"]["k"] != "noann":
            base = _ty_src(c["base"])
            if c["params"] and _tvars_in_order(c["base"]) != list(c["params"]):
                # the class's own parameter order differs from the order in which its base mentions them
                base += ", Generic[" + ", ".join(c["params"]) + "]"
        elif c["params"]:
            base = "Generic[" + ", ".join(c["params"]) + "]"
        else:
            base = ""
        if c.get("fields"):
            lines.append("@dataclass")
        lines.append(f"class {c['name']}" + (f"({base})" if base else "") + ":")
        for fd in c.get("fields", []):
            # string annotations, as a class referring to itself (or `from __future__ import annotations`) has
            lines.append(f"    {fd['name']}: \"{_ty_src(fd['ret'])}\"")
        if not c["methods"] and not c.get("fields"):
            lines.append("    pass")
        for m in c["methods"]:
            ann = "" if m["ret"]["k"] == "noann" else " -> " + _ty_src(m["ret"])
            if m["name"] == "jets" and ann.startswith(" -> Iterable[") and m["ret"]["a"][0]["k"] == "ty" \
                    and not m["ret"]["a"][0]["a"]:
                # a forward reference INSIDE the generic: Iterable["Jet"]
                ann = ' -> Iterable["' + m["ret"]["a"][0]["s"] + '"]'
            if ann.startswith(" -> list["):
                ann = " -> typing.List[" + ann[len(" -> list["):]
            if ann.startswith(" -> Sequence["):
                ann = " -> collections.abc.Sequence[" + ann[len(" -> Sequence["):]
            if m["name"] == "trks" and ann.startswith(" -> Iterable["):
                # the same generic spelled through collections.abc (PEP 585), as newer code writes it
                ann = " -> collections.abc." + ann[len(" -> "):]
            if c["name"] + "[" in ann or ann.endswith(" " + c["name"]):
                ann = ' -> "' + ann[len(" -> "):] + '"'      # the class refers to itself: string annotation
            lines.append(f"    def {m['name']}(self){ann}: ...")
        lines.append("")
    lines += ["@register_func_adl_os_collection",
              "class MyColl(ObjectStreamInternalMethods[CT]):",
              "    def Second(self) -> CT: ...",
              "    def Size2(self) -> int: ...", ""]
    return "\n".join(lines)


def type_term(t):
    """Python type object -> type term of spec/TypeFollow.tla"""
    import dataclasses
    import typing
    from typing import Any

    def Ty(nm, args=()):
        return codec.T("ty", s=nm, a=list(args))
    if t is Any:
        return Ty("Any")
    if isinstance(t, typing.TypeVar):
        return codec.T("tv", s=t.__name__)
    o = typing.get_origin(t)
    if o is not None:
        nm = getattr(o, "__name__", str(o))
        if nm == "Iterable" or o is typing.Iterable or str(o) == "<class 'collections.abc.Iterable'>":
            nm = "Iterable"
        return Ty(nm, [type_term(a) for a in typing.get_args(t)])
    if isinstance(t, type):
        if dataclasses.is_dataclass(t) and t.__name__ == "dict_dataclass":
            hints = typing.get_type_hints(t)
            return codec.T("rec", p=list(hints.keys()), a=[type_term(v) for v in hints.values()])
        return Ty(t.__name__)
    return Ty("?" + str(t))


def run_types_case(cid, ops, ns):
    logging.disable(logging.WARNING)
    from func_adl import EventDataset

    class DS(EventDataset):
        def __init__(self):
            super().__init__(ns["Evt"])

        async def execute_result_async(self, a, title=None):
            return 0

    rec = {"id": cid, "kind": "types", "ops": [{"op": o["op"], "lam": o["lam"]} for o in ops], "obs": [],
           "source": "ds"}
    s = DS()
    for o in ops:
        text = codec.src(o["lam"])
        rec["source"] += f".{o['op']}({text})"
        try:
            s = getattr(s, o["op"])(text)
            rec["obs"].append({"res": "ok", "ty": type_term(s.item_type)})
        except Exception as e:
            rec["obs"].append({"res": type(e).__name__, "ty": codec.T("ty", s="Any"), "msg": str(e)[:100]})
            break
    while len(rec["obs"]) < len(ops):
        rec["obs"].append({"res": "not-run", "ty": codec.T("ty", s="Any")})
    return rec


# ----------------------------------------------------------------------------------------------
# C09: callbacks
CB_CONTEXTS = {
    # id: (description, [(op, lambda template)], stage index (1-based) whose lambda holds the sites, receiver)
    0: ("depth 0 on the stream's item", [("Select", "lambda e: {C}")], 1, "e"),
    1: ("depth 1 through a collection Select", [("Select", "lambda e: e.jets().Select(lambda j: {C})")], 1, "j"),
    2: ("depth 2 inside a nested Where", [("Select", "lambda e: e.jets().Select(lambda j: j.trks().Where("
                                                     "lambda t: {C} > 0))")], 1, "t"),
    3: ("second stage: Where on the stream after SelectMany",
        [("SelectMany", "lambda e: e.jets()"), ("Where", "lambda j: {C} > 0")], 2, "j"),
    4: ("second stage, nested", [("Select", "lambda e: e.jets()"), ("Select", "lambda js: js.Select(lambda j: {C})")],
        2, "j"),
    5: ("depth 3", [("Select", "lambda e: e.jets().Select(lambda j: j.trks().Select(lambda t: t.hits().Select("
                               "lambda h: {C})))")], 1, "h"),
    6: ("on First() of a collection, then a later stage without sites",
        [("Select", "lambda e: {C}"), ("Select", "lambda x: x + 1")], 1, "e.jets().First()"),
    7: ("inside SelectMany's lambda at depth 1",
        [("SelectMany", "lambda e: e.jets().Select(lambda j: {C})")], 1, "j"),
    10: ("inside a nested Where whose lambda is handed over BY KEYWORD (filter=lambda ...)",
         [("Select", "lambda e: e.jets().Where(filter=lambda j: {C} > 0)")], 1, "j"),
    9: ("on an object whose type is a parameterised generic class (Evt.link() -> Link[Trk]); Link carries the placement",
        [("Select", "lambda e: {C}")], 1, "e.link()"),
    8: ("two chained typed calls, the second on the result of the (possibly rewritten) first: e.sub(101).m(102)",
        [("Select", "lambda e: e.sub(101).m(102)")], 1, "chain"),
}


def cb_universe(pl, rw, log, params, owner, inh=False):
    import copy
    from func_adl import func_adl_callable, func_adl_callback, func_adl_parameterized_call

    def site_of(a):
        if a.args and isinstance(a.args[0], ast.Constant):
            return a.args[0].value
        return -1

    def rewrite(a):
        a2 = copy.copy(a)
        if isinstance(a.func, ast.Attribute):
            a2.func = ast.Attribute(value=a.func.value, attr=a.func.attr + "_rw", ctx=ast.Load())
        elif isinstance(a.func, ast.Name):
            a2.func = ast.Name(id=a.func.id + "_rw", ctx=ast.Load())
        return a2

    def mk(kind):
        def cb(s, a):
            site = site_of(a)
            log.append({"kind": kind, "site": site})
            s2 = s.MetaData({"cb": kind, "site": site})
            return s2, (rewrite(a) if rw else a)
        return cb

    def cb_param(s, a, param):
        site = site_of(a)
        log.append({"kind": "param", "site": site})
        params.append(param)
        s2 = s.MetaData({"cb": "param", "site": site})
        return s2, (rewrite(a) if rw else a), int

    cls_cb = mk("class") if pl in ("class", "both") else None
    m_cb = mk("method") if pl in ("method", "both") else None
    ns = {"Iterable": typing_iterable(), "func_adl_callback": func_adl_callback,
          "func_adl_parameterized_call": func_adl_parameterized_call, "func_adl_callable": func_adl_callable,
          "cls_cb": cls_cb, "m_cb": m_cb, "cb_param": cb_param, "decoy_cb": mk("decoy"), "fn_cb": mk("func")}
    cdeco = "@func_adl_callback(cls_cb)\n" if cls_cb else ""
    mdeco = "    @func_adl_callback(m_cb)\n" if m_cb else ""
    pdeco = "    @func_adl_parameterized_call(cb_param)\n" if pl == "param" else ""
    src = ""
    chain = [("Hit", None), ("Trk", ("hits", "Hit")), ("Jet", ("trks", "Trk")), ("Evt", ("jets", "Jet"))]
    if owner == "chain":
        # Evt.sub(tag) -> Jet and Jet.m(tag): both classes / methods carry the placement
        src = (f"{cdeco}class Jet:\n{mdeco}    def m(self, tag: int) -> int: ...\n"
               f"{mdeco}    def m_rw(self, tag: int) -> int: ...\n{mdeco}    def m_rw_rw(self, tag: int) -> int: ...\n\n"
               f"{cdeco}class Evt:\n{mdeco}    def sub(self, tag: int) -> Jet: ...\n"
               f"    def sub_rw(self, tag: int) -> Jet: ...\n    def sub_rw_rw(self, tag: int) -> Jet: ...\n\n")
        src += "@func_adl_callable()\ndef cbfn(tag: int) -> int: ...\n"
        exec(compile(src, "<cb universe chain>", "exec"), ns)
        return ns
    if owner == "Link":
        ns["Generic"] = __import__("typing").Generic
        ns["LT"] = __import__("typing").TypeVar("LT")
        src += f"{cdeco}class Link(Generic[LT]):\n{mdeco}    def m(self, tag: int) -> int: ...\n"
        src += f"{pdeco}    @property\n    def prop(self): ...\n\n"
    for name, coll in chain:
        # only the class of the receiver of the call sites carries the placement: a class-level callback
        # fires for ANY method of its class, so the navigation methods must live on callback-free classes
        mine = name == owner
        if mine and inh:
            # the receiver's class inherits m / prop from a callback-free base class; the class-level callback sits on
            # the derived class, the method-level / property-level one where the method is defined
            src += f"class {name}Base:\n{mdeco}    def m(self, tag: int) -> int: ...\n"
            src += f"{pdeco}    @property\n    def prop(self): ...\n\n"
            src += f"{cdeco}class {name}({name}Base):\n    def own_{name.lower()}(self) -> int: ...\n"
        else:
            src += f"{cdeco if mine else ''}class {name}:\n{mdeco if mine else ''}    def m(self, tag: int) -> int: ...\n"
            src += f"{pdeco if mine else ''}    @property\n    def prop(self): ...\n"
        if coll:
            src += f"    def {coll[0]}(self) -> Iterable[{coll[1]}]: ...\n"
        if name == "Evt" and owner == "Link":
            src += "    def link(self) -> Link[Trk]: ...\n"
        src += "\n"
    src += "@func_adl_callback(decoy_cb)\nclass Other:\n    @func_adl_callback(decoy_cb)\n    def m(self, tag: int) -> int: ...\n\n"
    if pl == "func":
        src += "@func_adl_callable(fn_cb)\ndef cbfn(tag: int) -> int: ...\n"
    else:
        src += "@func_adl_callable()\ndef cbfn(tag: int) -> int: ...\n"
    exec(compile(src, "<cb universe>", "exec"), ns)
    return ns


def typing_iterable():
    from typing import Iterable
    return Iterable


def run_callback_case(cid, cs):
    logging.disable(logging.WARNING)
    from func_adl import EventDataset
    log, params = [], []
    desc, steps, site_stage, recv = CB_CONTEXTS[cs["ctx"]]
    owner = {"e": "Evt", "j": "Jet", "t": "Trk", "h": "Hit", "e.jets().First()": "Jet", "chain": "chain", "e.link()": "Link"}[recv]
    ns = cb_universe(cs["pl"], cs["rw"], log, params, owner, bool(cs.get("inh")))
    alias = bool(cs.get("alias"))
    sites = ([101, 101] if alias else [101, 102]) if cs["two"] else [101]

    def call_src(site):
        if cs["pl"] == "func":
            return f"cbfn({site})"
        if cs["pl"] == "param":
            return f"{recv}.prop[7]({site})"
        return f"{recv}.m({site})"

    C = " + ".join(call_src(s) for s in sites)

    class DS(EventDataset):
        def __init__(self):
            super().__init__(ns["Evt"])

        async def execute_result_async(self, a, title=None):
            return 0

    rec = {"id": cid, "kind": "callbacks", "cs": cs, "fired": [], "upstream": [[] for _ in sites],
           "calls": [codec.T("absent") for _ in sites], "params": [], "exc": "", "source": "ds"}
    try:
        s = DS()
        for op, lam in steps:
            text = lam.replace("{C}", C)
            rec["source"] += f".{op}({text})"
            if alias and "{C}" in lam:
                # both sites are one shared ast.Call object (x + x with the same node on both sides)
                lam_ast = ast.parse(text).body[0].value
                for n in ast.walk(lam_ast):
                    if isinstance(n, ast.BinOp) and isinstance(n.op, ast.Add) and ast.dump(n.left) == ast.dump(n.right) \
                            and isinstance(n.right, ast.Call):
                        n.right = n.left
                rec["source"] += "  [both sites are the same ast.Call object]"
                s = getattr(s, op)(lam_ast)
            else:
                s = getattr(s, op)(text)
        rec["fired"] = list(log)
        rec["params"] = [p if isinstance(p, int) else -1 for p in params]
        # the operator nodes of the stages, bottom-up numbering
        node = s.query_ast
        stage_nodes = []
        while isinstance(node, ast.Call) and isinstance(node.func, ast.Name) and node.func.id != "EventDataset":
            if node.func.id in ("Select", "SelectMany", "Where"):
                stage_nodes.append(node)
            node = node.args[0]
        stage_nodes.reverse()
        opnode = stage_nodes[site_stage - 1]
        ups = []
        node = opnode.args[0]
        while isinstance(node, ast.Call) and isinstance(node.func, ast.Name) and node.func.id != "EventDataset":
            if node.func.id == "MetaData":
                d = ast.literal_eval(node.args[1])
                if isinstance(d, dict) and "cb" in d:
                    ups.append({"kind": d["cb"], "site": d["site"]})
            node = node.args[0]
        rec["upstream"] = [ups for _ in sites]
        for i, site in enumerate(sites):
            occ = [n for n in ast.walk(opnode.args[1]) if isinstance(n, ast.Call) and n.args
                   and isinstance(n.args[0], ast.Constant) and n.args[0].value == site]
            k = sites[:i].count(site)       # the k-th occurrence of this site id (aliased sites share the id)
            if k < len(occ):
                rec["calls"][i] = codec.enc(occ[k])
        rec["query"] = ast.unparse(s.query_ast)
    except Exception as e:
        rec["exc"] = type(e).__name__
        rec["msg"] = str(e)[:160]
        rec["fired"] = list(log)
    return rec
