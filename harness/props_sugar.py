"""C06: comprehension and data-class sugar lowers to equivalent queries."""

import ast
import importlib.util
import json
import logging
import os
import sys

import codec
import common
import replay_passes
import tlcrun

PLANS = {"quick": {"comp": [("comp3", "comp", 3, 12000)], "MaxFields": 2},
         # (budget 4 has > 40M derivation states: explored by seeded random walks instead of exhaustively)
         # (all of comp3 - 700k+ programs with a comprehension since the family got constant conditions - does not fit in
         #  memory next to 16 forked replay workers: a stratified 250k sample)
         "thorough": {"comp": [("comp3", "comp", 3, 250000), ("compR5", "comp", 5, 120000, 60000)], "MaxFields": 3}}
FN = ["a", "b", "c", "d"]


def class_source(kind, sig, name):
    fields = []
    for j in range(1, sig["n"] + 1):
        if sig.get("dk") == "none1" and j == sig["r"] + 1:
            fields.append(f"    {FN[j - 1]}: Optional[int] = None")
        else:
            fields.append(f"    {FN[j - 1]}: int" + ("" if j <= sig["r"] else f" = {20 + j}"))
    if kind == "dataclass":
        return f"@dataclass\nclass {name}:\n" + "\n".join(fields) + "\n"
    if kind == "dataclass_derived":
        # the last field is added by a subclass; the base class has the others
        base = f"@dataclass\nclass {name}_base:\n" + ("\n".join(fields[:-1]) if fields[:-1] else "    pass") + "\n"
        return base + f"\n\n@dataclass\nclass {name}({name}_base):\n" + fields[-1] + "\n"
    if kind == "dataclass_kwonly":
        # a keyword-only field declared first: __init__ takes it after the ordinary ones, fields() lists it first
        return f"@dataclass\nclass {name}:\n    z: int = field(default=7, kw_only=True)\n" + "\n".join(fields) + "\n"
    if kind == "dataclass_initfalse":
        # a field that is not a constructor parameter comes first: fields(cls) differs from the signature
        return f"@dataclass\nclass {name}:\n    z: int = field(default=7, init=False)\n" + "\n".join(fields) + "\n"
    return f"class {name}(NamedTuple):\n" + "\n".join(fields) + "\n"


def call_parts(shape):
    pos = [10 + i for i in range(1, shape["npos"] + 1)]
    kws = [(kw, (30 + FN.index(kw) + 1) if kw in FN else 39) for kw in shape["kws"]]
    return pos, kws


def run(prop, tier):
    logging.disable(logging.WARNING)
    from func_adl import EventDataset
    from func_adl.ast.syntatic_sugar import resolve_syntatic_sugar
    rep = common.Report(prop, tier)
    plan = PLANS[tier]
    # ---------------- comprehensions
    jobs = []
    fams = {}
    for entry in plan["comp"]:
        (name, fam, budget, keep) = entry[:4]
        if len(entry) > 4:
            progs, st = common.gen_programs(prop, name, fam, budget, simulate=f"num={max(1, entry[4] // 16)}",
                                            extra_args=["-depth", "80", "-seed", str(common.seed() + 13)])
        else:
            progs, st = common.gen_programs(prop, name, fam, budget)
        rep.add_tlc(st)
        total = len(progs)
        progs = [p for p in progs if "comp" in common.term_features(p)]
        if keep is not None:
            progs = common.subsample_stratified(progs, keep, salt=name)
        fams[name] = {"generated": total, "with_comprehension_replayed": len(progs), "budget": budget}
        for p in progs:
            jobs.append((len(jobs), "sugar", p, {}))
            # the same comprehension node at two places of one query (what inlining a helper that uses its parameter
            # twice produces): (P, P) with both halves ONE shared object
            if len(jobs) % 5 == 0:
                jobs.append((len(jobs), "sugar", codec.T("tuple", a=[p, p]), {"shared": True}))
    recs = replay_passes.run_many(jobs)
    vrecs = [{"id": r["id"], "pass": "sugar", "in": r["in"], "out": r["out"], "exc": r["exc"],
              "flags": {"compiles": r["flags"]["compiles"], "shape": False, "malformed": False}} for r in recs]
    # malformed comprehensions (not expressible as terms): tuple targets and async, in several positions
    for text in ["lambda e: [a for (a, b) in e.jets]", "lambda e: [a + b for a, b in e.pairs if a > 1]",
                 "lambda e: (a for (a, b) in e.jets)", "lambda e: [x async for x in e.jets]",
                 "lambda e: (x async for x in e.jets if x.pt > 1)",
                 "lambda e: [[q for (q, r) in j.trks] for j in e.jets]",
                 "lambda e: e.jets.Select(lambda j: [t async for t in j.trks])",
                 "lambda e: [j for j in [a for [a, b] in e.jets]]"]:
        rid = len(vrecs)
        rec = {"id": rid, "pass": "sugar", "in": codec.T("str", s=text), "out": codec.T("absent"), "exc": "",
               "flags": {"compiles": True, "shape": False, "malformed": True}}
        try:
            resolve_syntatic_sugar(ast.parse(text).body[0].value)
        except Exception as e:
            rec["exc"] = type(e).__name__
        vrecs.append(rec)
        recs.append({"id": rid, "in": rec["in"], "out": rec["out"], "exc": rec["exc"], "flags": rec["flags"]})
        jobs.append((rid, "sugar", rec["in"], {}))
    base = len(vrecs)

    # ---------------- constructors
    d = tlcrun.fresh_dir(common.outdir(prop, "gen_ctor"))
    cfg = os.path.join(d, "gen.cfg")
    tlcrun.write_cfg(cfg, constants={"MaxFields": plan["MaxFields"]}, invariants=["Export"])
    out = os.path.join(d, "cases.ndjson")
    st = tlcrun.run("GenCtor", cfg, d, env={"OUT_FILE": out}, workers=4)
    rep.add_tlc(st)
    cases = [json.loads(c) for c in sorted({line.strip() for line in open(out) if line.strip()})]
    moddir = tlcrun.fresh_dir(common.outdir(prop, "mod"))
    modpath = os.path.join(moddir, "c06_queries.py")
    classes = {}
    lines = ["from dataclasses import dataclass, field\nfrom typing import NamedTuple, Optional\n\n"]
    for c in cases:
        nm = f"{ {'dataclass': 'DC', 'namedtuple': 'NT', 'dataclass_initfalse': 'DI', 'dataclass_kwonly': 'DK', 'dataclass_derived': 'DD'}[c['cls']] }_{c['sig']['n']}_{c['sig']['r']}" + ("_n" if c["sig"]["dk"] == "none1" else "")
        if nm not in classes:
            classes[nm] = True
            lines.append(class_source(c["cls"], c["sig"], nm) + "\n\n")
        c["clsname"] = nm
    for i, c in enumerate(cases):
        if c["route"] == "select":
            pos, kws = call_parts(c["shape"])
            args = ", ".join([str(p) for p in pos] + [f"{k}={v}" for k, v in kws])
            lines.append(f"def q_{i}(ds):\n    return ds.Select(lambda e: {c['clsname']}({args}))\n\n\n")
    with open(modpath, "w") as f:
        f.write("".join(lines))
    spec = importlib.util.spec_from_file_location("c06_queries", modpath)
    mod = importlib.util.module_from_spec(spec)
    sys.modules["c06_queries"] = mod
    spec.loader.exec_module(mod)

    class DS(EventDataset):
        async def execute_result_async(self, a, title=None):
            return 0

    crecs = []
    for i, c in enumerate(cases):
        rec = {"id": base + i, "pass": "ctor", "sig": c["sig"], "shape": c["shape"], "out": codec.T("absent"),
               "exc": "", "in": codec.T("absent"),
               "flags": {"compiles": True, "shape": False, "zkw": c["cls"] == "dataclass_kwonly"}}
        pos, kws = call_parts(c["shape"])
        try:
            if c["cls"] == "dataclass_derived":
                # the base class has been lowered earlier in this process
                bcls = getattr(mod, c["clsname"] + "_base")
                nb = c["sig"]["n"] - 1
                bcall = ast.Call(func=ast.Constant(value=bcls), args=[ast.Constant(value=1) for _ in range(nb)], keywords=[])
                resolve_syntatic_sugar(ast.Lambda(args=ast.arguments(posonlyargs=[], args=[ast.arg(arg="e")], kwonlyargs=[],
                                                                    kw_defaults=[], defaults=[]), body=bcall))
            if c["route"] == "direct":
                call = ast.Call(func=ast.Constant(value=getattr(mod, c["clsname"])),
                                args=[ast.Constant(value=p) for p in pos],
                                keywords=[ast.keyword(arg=k, value=ast.Constant(value=v)) for k, v in kws])
                lam = ast.Lambda(args=ast.arguments(posonlyargs=[], args=[ast.arg(arg="e")], kwonlyargs=[],
                                                    kw_defaults=[], defaults=[]), body=call)
                res = resolve_syntatic_sugar(lam)
                rec["out"] = codec.enc(res.body)
            else:
                s = getattr(mod, f"q_{i}")(DS())
                rec["out"] = codec.enc(s.query_ast.args[1].body)
        except Exception as e:
            rec["exc"] = type(e).__name__
            rec["msg"] = str(e)[:120]
        crecs.append(rec)
    allrecs = vrecs + [{k: r[k] for k in ("id", "pass", "sig", "shape", "out", "exc", "in", "flags")} for r in crecs]
    for r in allrecs:
        r["flags"].setdefault("malformed", False)
        r["flags"].setdefault("zkw", False)
    verdicts, vst = common.validate(prop, "sugar", "TracePass", allrecs)
    rep.add_tlc(vst)
    rep.traces = len(allrecs)
    rep.evaluations = len(allrecs)
    counts = {}
    for cid, v in sorted(verdicts.items()):
        key = ("ctor:" if cid >= base else "comp:") + v["v"] + (":" + v["clause"] if v["clause"] else "")
        counts[key] = counts.get(key, 0) + 1
        if v["v"] == "ACCEPT":
            if v["nontrivial"]:
                rep.nontrivial += 1
            if cid % 1009 == 0 and cid < base:
                rep.sample({"in": codec.src(recs[cid]["in"]), "out": codec.src(recs[cid]["out"])})
            if cid >= base and (cid - base) % 97 == 0:
                c = cases[cid - base]
                rep.sample({"ctor": c, "out": codec.src(crecs[cid - base]["out"]) if not crecs[cid - base]["exc"]
                            else crecs[cid - base]["exc"]})
        elif v["v"] == "REJECT":
            if cid < base:
                r = recs[cid]
                rep.reject(cid, v["clause"], {"property": prop, "pass": "sugar", "case": jobs[cid][2],
                                              "source": codec.src(r["in"]),
                                              "observed": codec.src(r["out"]) if not r["exc"] else r["exc"],
                                              "verdict": v})
            else:
                c = cases[cid - base]
                r = crecs[cid - base]
                pos, kws = call_parts(c["shape"])
                rep.reject(cid, v["clause"], {"property": prop, "ctor_case": c,
                                              "call": f"{c['clsname']}({', '.join([str(p) for p in pos] + [f'{k}={x}' for k, x in kws])})",
                                              "observed": (r["exc"] + " " + r.get("msg", "")) if r["exc"]
                                              else codec.src(r["out"]), "verdict": v})
        else:
            raise common.MachineryError("UNMODELLED record in C06")
    rep.extra.update(families=fams, ctor_cases=len(cases), verdicts=counts)
    rep.rule = ("comprehensions: programs of spec/Grammar.tla family 'comp' (list comprehensions and generator "
                "expressions with one for and 0-2 ifs, nested in element / iterable / condition position and inside "
                "operator lambdas, targets re-using outer names); run through resolve_syntatic_sugar; TLC judges no "
                "comprehension left, scoping and Eval equality with the Python meaning of the comprehension (Sem). "
                "constructors: cases of spec/GenCtor.tla (field lists x positional / keyword / unknown / surplus / "
                "doubly-bound arguments x dataclass / NamedTuple x direct / through Select with a real captured class); "
                "TLC judges field binding per DESIGN.md A.5 / ValueError for malformed uses")
    rep.exhaustive = False
    rep.assumptions = ["single-for comprehensions", "constructor arguments are distinct constants"]
    return rep.finish()
