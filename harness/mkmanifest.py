"""Regenerates /verif/MANIFEST.json from the table below (run after adding a check)."""
import json

GUARD = "FUNC_ADL_VERIF"
BASE = ("cd /repo && /venv/bin/python -m pytest -ra -q -p no:cacheprovider --timeout=900 "
        "--continue-on-collection-errors")

TRUST = ("TLC 1.8 and the CommunityModules Json/IOUtils; harness/codec.py (ast <-> term records); "
         "bounded model (small-scope): budgets, datasets and class models listed in the evidence file")

CHECKS = {
    "C02": dict(
        text="TLC enumerates every program of the sorted/scoped/budgeted grammar (spec/Grammar.tla) per family and "
             "budget, the real simplify_chained_calls is run on each, and TLC (spec/TracePass.tla) judges every "
             "recorded (in, out) pair against the relational specification: FV(out) within FV(in) and Eval(out, d) = "
             "Eval(in, d) on every model dataset d on which the original evaluates without error (spec/Sem.tla). "
             "Exhaustive within the budgets, seeded random walks beyond. Design level: spec/Simplify.tla models the "
             "simplifier as a rewriting system (one rule per case of the implementation, capture-avoiding substitution) "
             "and TLC checks Preserve and Scoped on every reachable term of every program of the bounded grammar; with "
             "the deviation switch Naive = TRUE it must (and does) find the capture counterexample."
             " Later families: operator lambdas with a defaulted further parameter, called lambdas whose parameter is named like a free name of their argument, Where / Select moved under a SelectMany binder inside a called lambda, called lambdas with positional-only / keyword-only / star parameters (Python's full binding in Sem.EvalCalledLambdaG), dictionary literals that repeat a key.",
        ref="DESIGN.md 6 (C02), 3.2-3.4, 4",
        technique="TLA+ term algebra + denotational semantics; TLC-generated programs replayed into the real "
                  "simplifier; TLC trace validation of (in,out) pairs against the relational spec"),
    "C14": dict(
        text="TLC enumerates chains of Select/Where/SelectMany stages whose earlier stages package values (tuple, list, "
             "dict, nested, packaged sequences) and whose later stages only project with constants; the real simplifier "
             "output is judged by TLC: no more packaging nodes than the final stage's result expression has and no "
             "constant projection of a literal left (ShapeOK), plus C02's clauses. Design level: TLC checks "
             "NormalFormShape on every normal form of spec/Simplify.tla over the chain family."
             " The shape clause counts the packaging of the VALUE of the result expression (Passes.ResTerm: a projection of a package, or of the first element of a packaged sequence, selects the component); family chainf adds First / SelectMany / projections of First(seq) to the chains.",
        ref="DESIGN.md 6 (C14)",
        technique="TLC-generated packaging chains replayed into the real simplifier; TLC trace validation of the "
                  "normal-form shape predicate"),
    "C18": dict(
        text="Same loop as C02 over the projection family (variable, negative, slice, out-of-range, absent-key selectors "
             "in every position) and the other families: TLC judges that the simplifier returned a well-formed term that "
             "unparses and compiles and preserves meaning, or raised FuncADLIndexError where an out-of-range constant "
             "index exists; any other exception or a timeout (CPU time) is a rejection. Design level: TLC checks on "
             "spec/Simplify.tla that every reachable term is well-formed and bounded and (liveness, weak fairness) that "
             "rewriting terminates."
             " The families with called lambdas beyond plain parameters (betav) and fresh-name collisions (corea) are part of this check too.",
        ref="DESIGN.md 6 (C18)",
        technique="TLC-generated programs replayed into the real simplifier under a per-case timeout; TLC trace "
                  "validation of totality / well-formedness clauses"),
    "C15": dict(
        text="TLC enumerates queries with MetaData wrappers (empty / non-empty, adjacent, nested, inside lambda bodies "
             "and operator arguments); the real extract_metadata and remove_empty_metadata are run on each and TLC judges "
             "the recorded (in, out, list, input-after) against the exact specification in spec/Passes.tla: out = "
             "StripMD(in), the list is a linear extension of 'outer before the wrappers inside its source' over exactly "
             "the wrappers present, out = RemoveEmptyMD(in), and the argument is unchanged afterwards.",
        ref="DESIGN.md 6 (C15)",
        technique="TLC-generated queries replayed into the real passes; TLC trace validation against exact rewrite "
                  "specs (StripMD / LinExt / RemoveEmptyMD) incl. argument-unmodified flag"),
    "C17": dict(
        text="TLC enumerates queries mixing method-form and function-form operator calls at all depths (incl. non-operator "
             "methods of the same shape and keyword arguments); the real change_extension_functions_to_calls output is "
             "judged by TLC: out = ToFunctionForm(in) exactly, no method-form operator left, second application is the "
             "identity, and Eval(out) = Eval(in) on every model dataset."
             " Family methb: operators inside a callee that is a called lambda, a subscripted table of functions or a call result.",
        ref="DESIGN.md 6 (C17)",
        technique="TLC-generated mixed-form queries replayed into the real pass; TLC trace validation against the exact "
                  "rewrite spec plus semantic equality"),
    "C19": dict(
        text="TLC enumerates expressions with the five shortcut names in call, method, nested, inside-lambda, bare and "
             "wrong-arity positions; the real aggregate_node_transformer output is judged by TLC: skeleton equal outside "
             "lowered calls, no one-argument shortcut left, each produced fold evaluated by Sem on all 40 integer "
             "sequences of length <= 3 over {-2,0,3} equals len/sum/max0/min0, and Eval equality on the model datasets."
             " Shortcut names called with keyword arguments (must be left alone) and lambda parameters named like a shortcut (family aggs) are included.",
        ref="DESIGN.md 6 (C19)",
        technique="TLC-generated expressions replayed into the real pass; TLC trace validation (skeleton match, fold "
                  "evaluation on all small integer sequences, semantic equality)"),
    "C11": dict(
        text="spec/Streams.tla models the forest of streams over a heap of SHARED AST nodes (derive = new node pointing "
             "at the parent's node, QMetaData = shallow copy of the top node, value() = clean + hand to executor) next to "
             "the abstract design (streams are immutable values). TLC model-checks that the heap model implements the "
             "abstract design (Immutable, ImmutableStep) for all histories up to the bound, exports every maximal "
             "history (BFS) plus random deeper ones, the harness replays them on real EventDataset/ObjectStream objects "
             "and TLC (TraceStreams.tla) validates after EVERY step that every previously created stream still shows "
             "its creation-time AST and item type."
             " The lambda pool includes a keyword argument whose value is rewritten on typed datasets; every 4th history hands over (shared) ast objects at every step.",
        ref="DESIGN.md 6 (C11), 3.10",
        technique="TLC model checking of the Streams heap model + TLC-generated histories replayed on the real objects "
                  "+ TLC trace validation of the full projected state after every step"),
    "C12": dict(
        text="Same state machine with executions: ValueStart / ExecReturn / ExecRaise over <= 2 datasets, <= 3 calls in "
             "flight, override executors, titles, MetaData({}) wrappers and terminals. TLC checks NoExecWhileBuilding, "
             "ExactlyOneCall, RoutedAndClean, OutcomeOnce on the model for all interleavings and completion orders; the "
             "exported histories are replayed with real asyncio tasks whose executor futures are completed in TLC's "
             "order, and TLC validates per step: no executor call while building, exactly one call on value_async, on "
             "the root dataset's executor (or the override), with RemoveEmptyMD(view) and the title, and that the "
             "caller gets exactly the value / exception of its own call."
             " Every other history awaits its answered-at-once calls one after the other inside one long-lived coroutine (one context), the others through the synchronous value(). Focus cross: the query of a second dataset embedded as a lambda body in a chain on the first (a dataset node off the source chain) - executions still go to the root of the source chain.",
        ref="DESIGN.md 6 (C12), 3.10",
        technique="TLC model checking over all schedules + deterministic asyncio replay of TLC's schedules + TLC trace "
                  "validation of executor log and deliveries"),
    "C16": dict(
        text="Same state machine with QMetaData on roots and derived streams (new / repeated keys, equal / different "
             "values, consecutive calls, branching). TLC checks QmdOK (lookup = last write on the stream's own path) on "
             "the heap model; exported histories are replayed and TLC validates after every step the lookup of every key "
             "on every live stream against the ghost map, and that the AST, dump and hash the executor receives equal "
             "those of a shadow chain built without any QMetaData."
             " Focus qmdpath: all derivation paths of 7 (thorough: 9) Select / QMetaData steps on one key.",
        ref="DESIGN.md 6 (C16), 3.10",
        technique="TLC model checking of the QMetaData heap model + replayed histories + TLC trace validation of all "
                  "lookups and of executor AST/dump/hash against a QMetaData-free shadow chain"),
    "C20": dict(
        text="spec/GenHash.tla derives base queries and EVERY single edit of each (operator, name, parameter name, "
             "constant value, constant type int/bool/str/float, argument order, tuple/list, nesting). Each case is built "
             "along 9 routes (parsed text, re-formatted text, deep copy with other positions and executor / query-"
             "metadata attributes on every node, nodes constructed directly, another process with another "
             "PYTHONHASHSEED, the fluent API with str / ast / callable lambdas, the fluent API with QMetaData between "
             "the steps) and the real (term(ast), calc_ast_hash(ast)) table is judged by TLC (TraceHash.tla): "
             "Stable (one hash per structure) and Sensitive (one structure per hash) over the whole table."
             " A query that cannot be hashed at all is a violation of its own (clause Defined); edits include characters beyond Latin-1 and beyond the BMP.",
        ref="DESIGN.md 6 (C20)",
        technique="TLC-generated base queries and single edits; real hashes recorded along 9 construction routes; TLC "
                  "trace validation of the bijection structure <-> hash"),
    "C10": dict(
        text="spec/GenExpr.tla derives single-parameter lambdas over the whole expression grammar (names, attributes, "
             "calls with positional and keyword arguments, subscripts, slices, unary / binary / boolean / chained "
             "comparison operators, conditionals, tuples, lists, dicts with non-identifier keys, nested lambdas), names "
             "decorated from a pool containing Python's own ast field names; each is given to Select, SelectMany and "
             "Where of an untyped dataset as str, ast and real callable, and TLC (TraceTyped.JudgeUntyped) decides: the "
             "emitted lambda is structurally the given one, or the call raised ValueError and TypeFollow.Trigger holds "
             "(designed refusals, over-approximated); any other exception class is a rejection."
             " Unhashable subscript keys of dictionary literals and calls whose function is a subscript (e.a[1](x)) on untyped receivers are part of the grammar.",
        ref="DESIGN.md 6 (C10), A.4",
        technique="TLC-generated expression grammar replayed through the real operators (3 supplies); TLC trace "
                  "validation of outcome in Allowed(expr)"),
    "C07": dict(
        text="spec/GenCalls.tla enumerates every signature with 0..3 (thorough: 0..4) parameters x every call shape Python "
             "accepts (plus shapes missing a required parameter) x 10 placements of the call site (depth 0-3, collection "
             "operators, Where, First, dictionary field, re-used parameter names with same-named methods of another "
             "signature, registered functions). Real classes are generated per signature, the query is built with the "
             "real operators and TLC (TraceTyped.JudgeCall) compares the emitted call with TypeFollow.Normalized: all "
             "parameters positional in declaration order, no keyword left, ValueError iff a required parameter is "
             "missing, stream operators inside lambdas keep exactly the user's arguments. TypeFollow's binding is itself "
             "cross-checked against inspect.Signature.bind on every case."
             " Signatures include keyword-only parameters (given by keyword, emitted at their position). Component spec/Registry.tla: the process-wide function / collection-class registries and reset as a state machine (design check with a deviation switch, exported histories replayed, TraceRegistry).",
        ref="DESIGN.md 6 (C07)",
        technique="TLC-enumerated signatures x call shapes x placements rendered to real classes; TLC trace validation "
                  "of the emitted call against the specification's Python binding (cross-checked with inspect)"),
    "C08": dict(
        text="spec/TypeFollow.tla gives the typing rules (TypeOf, StreamResult) over a class model with inheritance, a "
             "Generic[T] class, a generic subclass fixing T, one re-parameterising it, a custom Iterable subclass with "
             "own methods and a subclass fixing its parameter, a registered collection class adding operators and "
             "methods without return annotation. spec/GenTypes.tla runs the follower as a transition system (each step "
             "applies one rule that fits the current type, inside and across <= 3 stream operators); real classes are "
             "generated from the exported class model and TLC compares every observed item_type (as a type term) and "
             "every Where refusal with the specification."
             " The class model also has a plain subclass of a non-generic subclass of a generic class and a generic subclass handing its parameters to the base in another order.",
        ref="DESIGN.md 6 (C08)",
        technique="TLA+ typing rules over a class model; TLC-enumerated well-typed chains rendered to real generated "
                  "classes; TLC trace validation of observed item types"),
    "C09": dict(
        text="spec/GenCallbacks.tla enumerates callback placement (class / method / both / function processor / "
             "parameterised property) x 8 call-site contexts (depth 0-3 inside Select / Where / SelectMany lambdas of the "
             "stream and of typed collections, first or second stage, on First()) x one or two call sites x rewriting "
             "callbacks. Classes with logging callbacks are generated, the query is built with the real operators and "
             "TLC (TraceTyped.JudgeCallbacks) decides: fired multiset = TypeFollow.PlannedPairs, class before method per "
             "site, nothing fired for absent sites or the decoy class, each callback's MetaData on the source chain "
             "upstream of the operator whose lambda holds the site, the emitted call is the rewritten one ([param] "
             "removed, parameters by value)."
             " Case dimension inh: the receiver's class inherits the called method / property from a base class while the class-level callback sits on the derived class.",
        ref="DESIGN.md 6 (C09)",
        technique="TLC-enumerated placements x contexts rendered to real generated classes with logging callbacks; TLC "
                  "trace validation of firing log, metadata placement and emitted call against the callback plan"),
    "C06": dict(
        text="Comprehensions: TLC enumerates programs with list comprehensions / generator expressions (one for, 0-2 ifs, "
             "nested in element / iterable / condition position and inside operator lambdas, targets re-using outer "
             "names); the real resolve_syntatic_sugar output is judged by TLC: no comprehension left, well-scoped, and "
             "Eval(out) = Eval(in) where Sem gives comprehension nodes their Python meaning. Constructors: spec/"
             "GenCtor.tla enumerates field lists x positional / keyword / unknown / surplus / doubly-bound arguments x "
             "dataclass / NamedTuple x direct call / through Select with a real captured class; TLC judges the emitted "
             "dictionary against Python's binding (Passes.CtorDictOK) or demands ValueError for malformed calls; tuple "
             "targets and async comprehensions must raise ValueError."
             " Field lists include a defaulted field in the middle whose default is not a transportable literal (None).",
        ref="DESIGN.md 6 (C06), A.5",
        technique="TLC-generated comprehension programs and constructor cases replayed into the real sugar pass; TLC "
                  "trace validation (semantic equality with Python's comprehension meaning; Python field binding)"),
    "C13": dict(
        text="spec/GenEmbed.tla builds values step by step: all strings up to length 2 (thorough: 3) over {' \" \\ "
             "newline a ( + # e-acute}, ints (negative, > 2^64), floats, bools, None, bytes, wrapped in list / tuple / "
             "dict; each is handed to every entry point it fits (MetaData value and key, the four As* column lists, file "
             "and tree names, a declared default of a typed method, a variable captured by a real lambda). TLC "
             "(TraceEmbed) evaluates the literal found in the emitted query (Embed.LitEval) and compares it with the "
             "value (same type tag), requires literal node kinds only, and demands ValueError for non-transportable "
             "values inside lambdas."
             " File and tree names are exercised with every scalar type, not only str.",
        ref="DESIGN.md 6 (C13)",
        technique="TLC-enumerated values x API entry points; TLC trace validation of LitEval(literal node) = value"),
    "C05": dict(
        text="A table of nine helpers (bare-parameter body, arithmetic, defaults, a lambda helper, inner lambdas re-binding "
             "a parameter name, a helper calling a helper, an inner lambda using the outer parameter, keyword / default "
             "parameters) is part of spec/Sem.tla: Eval gives h(args) the meaning 'Python calls the helper'. TLC "
             "enumerates queries calling them (positional / keyword / re-ordered / defaulted, arguments over binders named "
             "like the helpers' own parameters and inner binders); they are rendered into modules with the real defs and "
             "real lambdas, run through the real capture + inlining code, and TLC judges the emitted query: compiles, "
             "well-scoped (helpers may stay as calls by name) and Eval(emitted) = Eval(original) on every dataset."
             " The table has grown to 34 helpers: positional-only / keyword-only parameters, a body that calls a lambda by keyword, a module-level constant of the helper's own module, two lambdas from one multi-line list literal, same-named functions from one factory.",
        ref="DESIGN.md 6 (C05)",
        technique="helper table in the TLA+ semantics; TLC-generated call sites rendered as real Python lambdas/defs; "
                  "TLC trace validation by semantic equality"),
    "C04": dict(
        text="spec/Capture.tla is a state machine of Python name resolution around a lambda: closure cells, module "
             "globals, nested class constants, a module attribute, a closure variable and a global of the same name; "
             "actions Build(shape) / Rebind(slot, value) / DelGlobal over 11 lambda shapes in which the captured names are "
             "free, or re-bound by the lambda's own parameter, a nested lambda or a comprehension target. TLC checks "
             "Frozen on the model, exports every history, the harness replays them with real closures (nonlocal / global "
             "/ class / module attribute rebinding) and TLC (TraceCapture) validates after EVERY step that each built "
             "query shows ExpectedLam(shape, snapshot at its Build) - right at the call, unchanged ever after - and that "
             "the call raised ValueError exactly when a captured value is not transportable."
             " 23 shapes by now: keyword-only parameters, defaults evaluated in the enclosing scope, comprehension iterables, a default that is itself a lambda.",
        ref="DESIGN.md 6 (C04)",
        technique="TLA+ state machine of name resolution and rebinding; TLC-generated histories replayed on real "
                  "closures; TLC trace validation of every built query after every step"),
    "C03": dict(
        text="spec/Source.tla defines statement layouts (1-3 chained operator calls, each with a lambda or a one-line def "
             "by name; operator, parameter name, break position before the dot / after the parenthesis / inside the "
             "body / before the closing parenthesis, string literals with brackets and the word lambda, comments, "
             "enclosing function / if / method / comprehension / conditional expression / nested def / with, a second "
             "lambda in the same statement, a preceding statement on the line) and Supported(layout) (DESIGN.md A.3). "
             "TLC enumerates layouts, the harness renders real modules and runs them against the real operators through "
             "a recording proxy, and TLC (TraceSource) decides per call: a recovered lambda is structurally the lambda "
             "passed at that call (WrongLambda is never allowed), and supported layouts are recovered without error."
             " Wrap defline: the enclosing function is a one-line def with the statement on its line; decoration cline: a comment-only line between the parenthesis and the lambda (exhaustive small family).",
        ref="DESIGN.md 6 (C03), A.3",
        technique="TLC-enumerated source layouts rendered to real Python modules; TLC trace validation of recovered "
                  "lambda = passed lambda and Supported => recovered",
        note="TLC enumerates and judges; the tokenizer-driven recovery algorithm itself is exercised, not modelled "
             "(DESIGN.md 8)"),
    "C01": dict(
        text="End to end: TLC enumerates user-style fluent chains (method-form operators; method calls with defaults and "
             "keyword arguments on model classes; arithmetic, comparisons, conditionals, tuple projection; nested Select / "
             "Where / SelectMany / First / Count / Sum). Each chain is (a) executed directly by CPython on the model "
             "datasets exported by TLC and (b) built with the real operators (lambdas as str / ast / real callables in "
             "generated modules, typed and untyped root, optional result terminal) and executed with value(). TLC "
             "(TracePass.JudgeE2E) decides that the AST the executor received evaluates (Sem.Eval) to what CPython "
             "computed on every dataset, and again after the three backend passes; Sem itself is cross-checked against "
             "CPython on every chain (disagreement = machinery failure, never an alarm). The structural part (each "
             "operator wraps its parent) is validated on all histories by TraceStreams (clause Wrap)."
             " Family e2el renders stages that differ only in a constant as ONE lambda expression in a loop (the same code object with different captured values).",
        ref="DESIGN.md 6 (C01), 4.4",
        technique="TLC-generated chains; differential oracle CPython-direct vs TLA+ denotational semantics of the AST "
                  "received by the executor (and after backend passes); TLC trace validation"),
}

ORDER = ["C%02d" % i for i in range(1, 21)]
NOT_BUILT = "check not built yet (work in progress; see DESIGN.md section 6 for the plan)"


def main():
    checks = []
    na = []
    for p in ORDER:
        if p in CHECKS:
            c = CHECKS[p]
            checks.append({
                "property_id": p,
                "quick_cmd": f"/verif/bin/check {p} --tier quick",
                "thorough_cmd": f"/verif/bin/check {p} --tier thorough",
                "evidence_file": f"/verif/evidence/{p}.json",
                "replay_cmd_template": "/verif/bin/check " + p + " --replay {path}",
                "engine": "tlc-conformance",
                "level_claimed": {"category": "model_checking", "text": c["text"], "design_ref": c["ref"]},
                "level_note": c.get("note", TRUST),
                "technique": c["technique"],
            })
        else:
            na.append({"property_id": p, "reason": NOT_BUILT})
    m = {
        "version": 1,
        "setup_cmd": "/verif/bin/setup",
        "hooks": {
            "guard": GUARD,
            "enable": "no source hooks in /repo: the pytest plug-in harness/verif_recorder.py wraps public functions "
                      "from outside at import time, only when FUNC_ADL_VERIF=1 (the checks C02 C11 C15 C17 C18 C19 C20 "
                      "run the repository's tests under it and validate the recorded calls with the same TLC trace "
                      "specifications: cd /repo && FUNC_ADL_VERIF=1 VERIF_TRACE_FILE=<file> PYTHONPATH=/verif/harness "
                      "/venv/bin/python -m pytest -q -p no:cacheprovider -p verif_recorder)",
            "baseline_off_cmd": BASE,
            "source_commits": [],
            "add_only": True,
        },
        "engines": [{
            "name": "tlc-conformance", "path": "/verif/bin/check",
            "serves_properties": [c["property_id"] for c in checks],
            "kind_free_text": "explicit TLA+ specification (spec/*.tla) checked by TLC; TLC-generated cases replayed "
                              "into /repo's working tree; recorded observations validated by TLC trace specs",
        }],
        "checks": checks,
        "not_applicable": na,
        "notes": "fix: commits in /repo are listed in /verif/known_findings.json (fixed entries suppress nothing).",
    }
    json.dump(m, open("/verif/MANIFEST.json", "w"), indent=1)
    print("checks:", [c["property_id"] for c in checks])


if __name__ == "__main__":
    main()
