"""C15 / C17 / C19: the small pure passes, decided by TracePass (exact / relational specs in Passes.tla)."""

import random

import codec
import common
import replay_passes

PLANS = {
    "C17": {
        "pass": "tofunc",
        "quick": [("meth3", "meth", 3, 14000), ("core3", "core", 3, 2000), ("methb3", "methb", 3, 5000)],
        "thorough": [("meth3", "meth", 3, None), ("core3", "core", 3, None), ("methR6", "meth", 6, 60000, 4000),
                     ("methb3", "methb", 3, None), ("methb4", "methb", 4, 80000)],
        "clauses": {"Exact", "MethodFormLeft", "Idempotent", "Preserve", "Total"},
    },
    "C19": {
        "pass": "aggregate",
        "quick": [("agg3", "agg", 3, 8000), ("agg2_3", "agg2", 3, None), ("aggs3", "aggs", 3, 4000)],
        "thorough": [("agg3", "agg", 3, None), ("agg4", "agg", 4, 150000), ("agg2_3", "agg2", 3, None),
                     ("agg2_4", "agg2", 4, 100000), ("aggR6", "agg2", 6, 40000, 3000), ("aggs3", "aggs", 3, None),
                     ("aggs4", "aggs", 4, 60000)],
        "clauses": {"Skeleton", "ShortcutLeft", "FoldValue", "Preserve", "Total"},
    },
    "C15": {
        "pass": "md",
        "quick": [("md3", "md", 3, None), ("md1_5", "md1", 5, 12000), ("mdp4", "mdp", 4, 4000)],
        "thorough": [("md3", "md", 3, None), ("md4", "md", 4, 120000), ("md1_5", "md1", 5, None),
                     ("mdR7", "md", 7, 40000, 3000), ("mdp5", "mdp", 5, 120000)],
        "clauses": {"Strip", "ListCount", "ListOrder", "Exact", "InputModified", "AnnotationLost", "Total"},
    },
}


def has_call(t, fname):
    if t["k"] == "call" and t["a"] and t["a"][0]["k"] == "name" and t["a"][0]["s"] == fname:
        return True
    return any(has_call(c, fname) for c in t["a"])


def repeated_call(t):
    """does the program contain the same call sub-term twice?"""
    seen = set()
    dup = [False]

    def go(u):
        if u["k"] == "call":
            k = codec.dumps(u)
            if k in seen:
                dup[0] = True
            seen.add(k)
        for c in u["a"]:
            go(c)
    go(t)
    return dup[0]


def renumber_md(t, rnd):
    """Give every non-empty MetaData dictionary a distinct value (rendering step)."""
    if t["k"] == "call" and t["a"] and t["a"][0]["k"] == "name" and t["a"][0]["s"] == "MetaData" \
            and t["n"] == 2 and t["a"][2]["k"] == "dict" and t["a"][2]["a"]:
        t = dict(t)
        d = dict(t["a"][2])
        d["a"] = [d["a"][0], codec.T("int", n=rnd.randrange(1, 1000000))]
        t["a"] = [t["a"][0], renumber_md(t["a"][1], rnd), d]
        return t
    t = dict(t)
    t["a"] = [renumber_md(c, rnd) for c in t["a"]]
    return t


def _fetch_family(arg):
    prop, entry, workers = arg
    (name, fam, budget, keep) = entry[:4]
    walks = entry[4] if len(entry) > 4 else None       # seeded random walks instead of BFS
    if walks:
        progs, st = common.gen_programs(prop, name, fam, budget, simulate=f"num={max(1, walks // 16)}",
                                        extra_args=["-depth", "80", "-seed", str(common.seed() + 11)])
    else:
        progs, st = common.gen_programs(prop, name, fam, budget, workers=workers)
    total = len(progs)
    if prop == "C15":
        progs = [p for p in progs if has_call(p, "MetaData")]
    if keep is not None:
        progs = common.subsample_stratified(progs, keep, salt=name)
    return progs, total, {k: v for k, v in st.items() if k not in ("stdout", "output")}


def run(prop, tier):
    rep = common.Report(prop, tier)
    plan = PLANS[prop]
    jobs = []
    fam_counts = {}
    rnd = random.Random(common.seed() + 17)
    if tier == "quick":
        # the families are generated (TLC), loaded and sub-sampled side by side, each by a forked worker
        import multiprocessing
        with multiprocessing.get_context("fork").Pool(min(6, len(plan[tier]))) as pool:
            fetched = pool.map(_fetch_family, [(prop, e, 4) for e in plan[tier]])
    else:
        fetched = (_fetch_family((prop, e, 16)) for e in plan[tier])
    for entry, (progs, total, st) in zip(plan[tier], fetched):
        (name, fam, budget, keep) = entry[:4]
        rep.add_tlc(st)
        fam_counts[name] = {"generated": total, "replayed": len(progs), "budget": budget,
                            "exhaustive": keep is None or len(progs) < keep}
        for p in progs:
            if prop == "C15":
                p = renumber_md(p, rnd)
                jobs.append((len(jobs), "extract_md", p, {}))
                jobs.append((len(jobs), "remove_empty_md", p, {}))
            else:
                jobs.append((len(jobs), plan["pass"], p, {}))
                # as a DAG: equal sub-terms are one shared ast object (what func_adl itself produces when a
                # substituted argument is used twice) - every program with a repeated call, and every 4th other one
                if repeated_call(p) or len(jobs) % 4 == 0:
                    jobs.append((len(jobs), plan["pass"], p, {"shared": True}))
                # the whole program twice in one query, as ONE shared object: (P, P)
                if len(jobs) % 7 == 0:
                    jobs.append((len(jobs), plan["pass"], codec.T("tuple", a=[p, p]), {"shared": True}))
                # through one long-lived transformer object that has been used before
                if prop == "C19" and len(jobs) % 3 == 0:
                    jobs.append((len(jobs), plan["pass"], p, {"reuse": True}))
                # ... and with equal function NAMES being one shared ast.Name object
                if prop == "C19" and (repeated_call(p) or len(jobs) % 5 == 0):
                    jobs.append((len(jobs), plan["pass"], p, {"shared": True, "shared_names": True}))
    recs = replay_passes.run_many(jobs)
    vrecs = []
    for r in recs:
        v = {"id": r["id"], "pass": r["pass"], "in": r["in"], "out": r["out"], "exc": r["exc"],
             "flags": {"compiles": r["flags"]["compiles"], "shape": False,
                       "input_unchanged": r["flags"]["input_unchanged"],
                       "annotations_kept": r["flags"].get("annotations_kept", True)},
             "extra": r["extra"], "out2": r.get("out2", codec.T("absent"))}
        vrecs.append(v)
    # wild traces: what the repository's own tests feed to these passes (recorder plug-in, FUNC_ADL_VERIF=1)
    import wild
    wild_passes = {"C17": ["tofunc"], "C19": ["aggregate"], "C15": ["extract_md", "remove_empty_md"]}[prop]
    nwild = 0
    for wp in wild_passes:
        for w in wild.pass_records(prop, wp, len(vrecs)):
            if w["in"]["k"] in ("opaque", "malformed") or w["exc"] != "" or w["out"]["k"] in ("opaque", "malformed"):
                continue      # (a test that expects the pass to raise, or a node kind outside the term algebra)
            w["id"] = len(vrecs)
            vrecs.append({k: w[k] for k in ("id", "pass", "in", "out", "exc", "flags", "extra", "out2")})
            recs.append({"id": w["id"], "pass": wp, "in": w["in"], "out": w["out"], "exc": w["exc"],
                         "flags": w["flags"], "extra": w["extra"]})
            jobs.append((w["id"], wp, w["in"], {}))
            nwild += 1
    fam_counts["wild (repository tests under the recorder)"] = {"generated": nwild, "replayed": nwild, "budget": 0,
                                                                "exhaustive": True, "suite": wild.suite_summary()}
    verdicts, vst = common.validate(prop, plan["pass"], "TracePass", vrecs)
    rep.add_tlc(vst)
    rep.traces = len(vrecs)
    rep.evaluations = len(vrecs)
    byid = {r["id"]: r for r in recs}
    counts = {}
    for cid, v in sorted(verdicts.items()):
        key = v["v"] if v["v"] != "REJECT" else "REJECT:" + v["clause"]
        counts[key] = counts.get(key, 0) + 1
        r = byid[cid]
        if v["v"] == "ACCEPT" and v["nontrivial"]:
            rep.nontrivial += 1
            rep.sample({"pass": r["pass"], "in": codec.src(r["in"]),
                        "out": codec.src(r["out"]) if r["exc"] == "" else r["exc"]})
        if v["v"] == "REJECT":
            replay = {"property": prop, "pass": jobs[cid][1], "case": jobs[cid][2], "flags": {},
                      "source": codec.src(r["in"]),
                      "observed": (codec.src(r["out"]) if r["exc"] == "" and r["flags"]["compiles"]
                                   else (r["exc"] or "malformed output")),
                      "verdict": v}
            rep.reject(cid, v["clause"], replay)
        elif v["v"] == "UNMODELLED":
            raise common.MachineryError(f"{prop}: record {cid} UNMODELLED ({v['clause']})")
    rep.extra.update(families=fam_counts, verdicts=counts)
    rep.rule = ("programs = complete derivations of spec/Grammar.tla for the listed families; each is run through the "
                "real pass and the recorded (in, out, extra) is judged by TLC against spec/Passes.tla; non-trivial = "
                "the input contains a construct the pass must act on (method-form operator / shortcut call / "
                "MetaData wrapper)")
    rep.exhaustive = all(f["exhaustive"] for f in fam_counts.values())
    rep.assumptions = ["Sem.Eval for the value-equality clauses", "bounded budgets listed under coverage.families"]
    return rep.finish()
