"""Confirm a seeded defect and run the checks against it.

usage: seedeval.py <seed-id> <source-dir with patch.diff demo.py meta.json> <check> [<check>...]
 1. scratch worktree of /repo HEAD (under /tmp): demo passes; apply patch: suite still 412 green, demo fails
 2. run the named checks (quick) from a scratch copy of /verif against that scratch worktree (PYTHONPATH), then remove both
 3. store everything under /verif/seeded/<seed-id>/
"""
import json
import os
import shutil
import subprocess
import sys
import time


def sh(cmd, cwd=None, env=None, timeout=1800):
    e = dict(os.environ)
    if env:
        e.update(env)
    p = subprocess.run(cmd, shell=True, cwd=cwd, env=e, capture_output=True, text=True, timeout=timeout)
    return p.returncode, p.stdout + p.stderr


def main():
    sid, src = sys.argv[1], sys.argv[2]
    checks = sys.argv[3:]
    wt = f"/tmp/sv_{sid}"
    sh(f"git -C /repo worktree remove --force {wt}")
    rc, out = sh(f"git -C /repo worktree add --detach {wt} HEAD")
    assert rc == 0, out
    result = {"seed": sid, "at": time.strftime("%Y-%m-%d %H:%M:%S"),
              "repo_head": sh("git -C /repo rev-parse --short HEAD")[1].strip()}
    vcopy = f"/tmp/svv_{sid}"
    try:
        rc0, o0 = sh(f"PYTHONPATH={wt} /venv/bin/python {src}/demo.py", cwd=wt)
        result["demo_without_change_rc"] = rc0
        rc, out = sh(f"git -C {wt} apply {src}/patch.diff")
        result["patch_applies"] = rc == 0
        if rc != 0:
            result["apply_error"] = out[-400:]
        else:
            rc, out = sh("/venv/bin/python -m pytest -q -p no:cacheprovider 2>&1 | tail -3", cwd=wt)
            result["suite_with_change"] = out.strip().splitlines()[-1] if out.strip() else ""
            rc1, o1 = sh(f"PYTHONPATH={wt} /venv/bin/python {src}/demo.py", cwd=wt)
            result["demo_with_change_rc"] = rc1
            result["demo_with_change_tail"] = o1.strip()[-300:]
        confirmed = (result.get("patch_applies") and result.get("demo_without_change_rc") == 0
                     and result.get("demo_with_change_rc", 0) != 0 and "412 passed" in result.get("suite_with_change", "")
                     and "failed" not in result.get("suite_with_change", ""))
        result["confirmed"] = bool(confirmed)
        result["checks"] = {}
        if confirmed and checks:
            # the checks run from a scratch copy of /verif against the scratch worktree that carries the change
            # (PYTHONPATH puts it in front of /repo), so that /repo and /verif stay untouched and usable meanwhile
            shutil.rmtree(vcopy, ignore_errors=True)
            shutil.copytree("/verif", vcopy, ignore=shutil.ignore_patterns(".git", "out", "seeded", "mutation", "__pycache__",
                                                                           "out_thorough*"))
            env = {"PYTHONPATH": wt, "PYTHONDONTWRITEBYTECODE": "1"}
            rc, out = sh("/venv/bin/python -c 'import func_adl; print(func_adl.__file__)'", env=env, cwd="/tmp")
            assert out.strip().startswith(wt), out
            for c in checks:
                t0 = time.time()
                rc, out = sh(f"{vcopy}/bin/check {c} --tier quick", cwd=vcopy, env=env, timeout=3600)
                viol = [ln for ln in out.splitlines() if ln.startswith("VIOLATION")]
                summ = [ln for ln in out.splitlines() if ln.startswith("[" + c + "]")]
                result["checks"][c] = {"exit": rc, "violation_lines": len(viol), "first": viol[:1],
                                       "summary": summ[-1] if summ else out[-300:], "wall_s": round(time.time() - t0)}
                if viol:
                    try:
                        rp = viol[0].split("replay=")[1].strip()
                        result["checks"][c]["replay_head"] = open(rp).read()[:1500]
                    except Exception:
                        pass
    finally:
        sh(f"git -C /repo worktree remove --force {wt}")
        shutil.rmtree(wt, ignore_errors=True)
        shutil.rmtree(vcopy, ignore_errors=True)
    dst = f"/verif/seeded/{sid}"
    os.makedirs(dst, exist_ok=True)
    for f in ("patch.diff", "demo.py"):
        if os.path.abspath(src) != os.path.abspath(dst):
            shutil.copy(os.path.join(src, f), os.path.join(dst, f))
    meta = {}
    try:
        meta = json.load(open(os.path.join(src, "meta.json")))
    except Exception:
        pass
    try:        # keep the evaluation made when the seed arrived ("first try") next to the latest one
        prev = json.load(open(os.path.join(dst, "meta.json")))
        meta["first_evaluation"] = prev.get("first_evaluation") or prev.get("evaluation")
    except Exception:
        pass
    meta["evaluation"] = result
    meta["detected_by"] = [c for c, r in result["checks"].items() if r["exit"] == 1 and r["violation_lines"] > 0]
    json.dump(meta, open(os.path.join(dst, "meta.json"), "w"), indent=1)
    print(json.dumps({"seed": sid, "confirmed": result["confirmed"], "detected_by": meta["detected_by"],
                      "checks": {c: r["summary"] for c, r in result["checks"].items()},
                      "why": {k: result.get(k) for k in ("patch_applies", "demo_without_change_rc",
                                                          "demo_with_change_rc", "suite_with_change")}}, indent=1))


if __name__ == "__main__":
    main()
