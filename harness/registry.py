"""The process-wide registries of func_adl.type_based_replacement against spec/Registry.tla.

A component of the C07 check (registered functions are normalised like typed methods; the registry decides which
signature applies):
  design    : TLC checks BuildsFollowRegistry, BuildsArePure, BuiltIsHistory on Registry.tla; with the deviation switch
              Sticky = TRUE (a per-name memo that registration and reset do not clear) it must find a counterexample
  spec->code: every behaviour of Registry.tla up to MaxSteps (exported by TLC) is replayed with the real
              register_func_adl_function / register_func_adl_os_collection / reset_global_functions, each history in
              a registry that was reset first; builds go through the real Select of a typed dataset
  code->spec: the emitted call / the observed type of every build is recorded; TLC (TraceRegistry) re-computes the
              registry from the actions and decides every build
"""
import ast
import json
import logging
import os
from typing import Iterable, TypeVar

import codec
import common
import tlcrun

PLANS = {"quick": {"MaxSteps": 5}, "thorough": {"MaxSteps": 6}}


def _variants():
    """real functions for the signature variants of spec/RegistryDefs.tla, per name"""
    out = {}
    for nm in ("fa", "fb"):
        ns = {}
        exec(f"def {nm}(a: int, b: int = 22) -> int: ...", ns)
        v1 = ns[nm]
        ns = {}
        exec(f"def {nm}(a: int, b: int = 42, c: int = 43) -> int: ...", ns)
        out[nm] = {1: v1, 2: ns[nm]}
    return out


class Jet:
    def pt(self) -> float: ...  # noqa


class Evt:
    def jets(self) -> Iterable[Jet]: ...  # noqa


def _type_name(t):
    import typing
    if t is typing.Any:
        return "Any"
    return getattr(t, "__name__", str(t))


def replay(tid, hist, variants):
    from func_adl import ObjectStream
    from func_adl.type_based_replacement import (ObjectStreamInternalMethods, register_func_adl_function,
                                                  register_func_adl_os_collection, reset_global_functions)
    reset_global_functions()
    recs = []
    for i, a in enumerate(hist):
        rec = {"tid": tid, "step": i + 1, "a": a, "obs": codec.T("absent"), "exc": ""}
        try:
            if a["act"] == "Register":
                register_func_adl_function(variants[a["nm"]][a["v"]], None)
            elif a["act"] == "RegisterColl":
                CT = TypeVar("CT")

                class MyColl(ObjectStreamInternalMethods[CT]):
                    def Second(self) -> CT: ...  # noqa

                register_func_adl_os_collection(MyColl)
            elif a["act"] == "Reset":
                reset_global_functions()
            else:
                o = ObjectStream[Evt](ast.Name(id="ds", ctx=ast.Load()), Evt)
                if a["act"] == "BuildFn":
                    text = f"lambda e: {a['nm']}(11, b=32)" if a["v"] == 1 else f"lambda e: {a['nm']}(11)"
                    rec["obs"] = codec.enc(o.Select(text).query_ast.args[1].body)
                elif a["act"] == "BuildSecond":
                    rec["obs"] = codec.T("str", s=_type_name(o.Select("lambda e: e.jets().Second()").item_type))
                elif a["act"] == "BuildAbs":
                    rec["obs"] = codec.T("str", s=_type_name(
                        o.Select("lambda e: abs(e.jets().First().pt())").item_type))
        except Exception as e:
            rec["exc"] = type(e).__name__
        recs.append(rec)
    reset_global_functions()
    return recs


def component(prop, tier, rep):
    logging.disable(logging.WARNING)
    plan = dict(PLANS[tier])
    # design level
    d = tlcrun.fresh_dir(common.outdir(prop, "registry_mc"))
    cfg = os.path.join(d, "mc.cfg")
    tlcrun.write_cfg(cfg, constants=dict(plan, Sticky="FALSE"), invariants=["BuildsFollowRegistry"],
                     properties=["BuildsArePure", "BuiltIsHistory"], view="NoHistView")
    st = tlcrun.run("Registry", cfg, d, workers=4)
    rep.add_tlc(st)
    info = {"design": {"module": "Registry", "constants": plan, "states": st["distinct"],
                       "checked": ["BuildsFollowRegistry", "BuildsArePure", "BuiltIsHistory"]}}
    # the deviation switch: the model must be able to tell
    d = tlcrun.fresh_dir(common.outdir(prop, "registry_sticky"))
    cfg = os.path.join(d, "mc.cfg")
    tlcrun.write_cfg(cfg, constants=dict(plan, Sticky="TRUE"), invariants=["BuildsFollowRegistry"], view="NoHistView")
    st = tlcrun.run("Registry", cfg, d, workers=4, check=False)
    if not st["violated"]:
        raise common.MachineryError("Registry.tla with Sticky = TRUE found no counterexample: the model is blind")
    info["design"]["Sticky_counterexample_found"] = True
    # spec -> code
    d = tlcrun.fresh_dir(common.outdir(prop, "registry_gen"))
    cfg = os.path.join(d, "gen.cfg")
    tlcrun.write_cfg(cfg, constants=dict(plan, Sticky="FALSE"), invariants=["Export"])
    out = os.path.join(d, "hist.ndjson")
    st = tlcrun.run("GenRegistry", cfg, d, env={"OUT_FILE": out}, workers=4)
    rep.add_tlc(st)
    hs = [json.loads(x) for x in sorted({line.strip() for line in open(out) if line.strip()})]
    builds = ("BuildFn", "BuildSecond", "BuildAbs")
    hs = [h for h in hs if any(a["act"] in builds for a in h) and any(a["act"] not in builds for a in h)]
    total = len(hs)
    # (the replay is sequential: every history starts from a reset registry; the thorough tier takes a stratified 40000)
    hs = common.subsample_stratified(hs, 3000 if tier == "quick" else 40000, salt="registry",
                                     key=lambda h: tuple(a["act"] for a in h))
    variants = _variants()
    recs = []
    for tid, h in enumerate(hs):
        recs += replay(tid, h, variants)
    # code -> spec
    verdicts, vst = common.validate(prop, "registry", "TraceRegistry", recs, group=lambda r: r["tid"],
                                    rec_id=lambda r: (r["tid"], r["step"]), verdict_id=lambda v: (v["tid"], v["step"]),
                                    per_shard=4000, spec="TSpec")
    rep.add_tlc(vst)
    bad = {}
    for r in recs:
        v = verdicts[(r["tid"], r["step"])]
        if not v["ok"] and r["tid"] not in bad:
            bad[r["tid"]] = (r, v["clauses"])
    rep.traces += len(hs)
    rep.evaluations += len(recs)
    rep.nontrivial += len(hs) - len(bad)
    for tid, (r, clauses) in sorted(bad.items()):
        rep.reject(2 * 10 ** 7 + tid, "Registry:" + clauses[0],
                   {"property": prop, "component": "type_based_replacement registries", "history": hs[tid],
                    "failing_step": {"step": r["step"], "action": r["a"],
                                     "observed": codec.src(r["obs"]) if r["obs"]["k"] != "absent" else r["exc"]},
                    "clauses": clauses})
    info["conformance"] = {"histories_generated": total, "histories_replayed": len(hs), "steps": len(recs),
                           "rejected": len(bad)}
    rep.extra["registry_component"] = info
