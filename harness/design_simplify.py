"""Design-level model checking of spec/Simplify.tla (the simplifier as a rewriting system).

TLC explores, for every program of a grammar family/budget, every rewriting sequence of the specification's
own rules and checks the property on every reachable term.  With Naive = TRUE (binder-blind substitution, what the
pinned implementation did before the fix: commits) TLC must find a counterexample: the model can tell.
"""
import os

import common
import tlcrun

PLANS = {
    "C02": {"quick": [("core", 3, ["Preserve", "Scoped"])],
            "thorough": [("core", 3, ["Preserve", "Scoped"]), ("beta", 3, ["Preserve", "Scoped"]),
                         ("fuse", 3, ["Preserve", "Scoped"]), ("fuse1", 3, ["Preserve", "Scoped"]),
                         ("fused", 3, ["Preserve", "Scoped"]), ("betav", 2, ["Preserve", "Scoped"]),
                         ("betads", 4, ["Preserve", "Scoped"]), ("betaw", 3, ["Preserve", "Scoped"])]},
    "C14": {"quick": [("chain1", 4, ["NormalFormShape", "Preserve"])],
            "thorough": [("chain1", 4, ["NormalFormShape", "Preserve"]), ("chainf", 4, ["NormalFormShape", "Preserve"])]},
    "C18": {"quick": [("idx", 3, ["WellFormedAlways", "Bounded", "Preserve"])],
            "thorough": [("idx", 3, ["WellFormedAlways", "Bounded", "Preserve"]),
                         ("expr", 3, ["WellFormedAlways", "Bounded"])]},
}


def run(prop, tier, rep):
    out = []
    for fam, budget, invs in PLANS[prop][tier]:
        d = tlcrun.fresh_dir(common.outdir(prop, f"design_{fam}{budget}"))
        cfg = os.path.join(d, "mc.cfg")
        tlcrun.write_cfg(cfg, constants={"Budget": budget, "Fam": '"%s"' % fam, "Rand": "FALSE", "Naive": "FALSE"},
                         invariants=invs)
        st = tlcrun.run("Simplify", cfg, d, workers=16, timeout=3000)
        rep.add_tlc(st)
        out.append({"family": fam, "budget": budget, "invariants": invs, "states": st["distinct"],
                    "transitions": st["generated"], "holds": True})
    if prop == "C18":
        # termination of the rewriting system (liveness under weak fairness) on the small budget
        d = tlcrun.fresh_dir(common.outdir(prop, "design_live"))
        cfg = os.path.join(d, "mc.cfg")
        tlcrun.write_cfg(cfg, spec="FairSpec", constants={"Budget": 2, "Fam": '"idx"', "Rand": "FALSE", "Naive": "FALSE"},
                         properties=["Terminates"])
        st = tlcrun.run("Simplify", cfg, d, workers=16, timeout=3000)
        rep.add_tlc(st)
        out.append({"family": "idx", "budget": 2, "property": "Terminates (liveness, WF)", "states": st["distinct"],
                    "holds": True})
    if prop == "C02" and tier == "thorough":
        # the deviation switch: the model must be able to tell
        d = tlcrun.fresh_dir(common.outdir(prop, "design_naive"))
        cfg = os.path.join(d, "mc.cfg")
        tlcrun.write_cfg(cfg, constants={"Budget": 3, "Fam": '"core"', "Rand": "FALSE", "Naive": "TRUE"},
                         invariants=["Preserve", "Scoped"])
        st = tlcrun.run("Simplify", cfg, d, workers=16, timeout=3000, check=False)
        if not st["violated"]:
            raise common.MachineryError("Simplify.tla with Naive = TRUE found no counterexample: the model is blind")
        out.append({"family": "core", "budget": 3, "Naive": True, "counterexample_found": st["violated"]})
    rep.extra["design_check_Simplify_tla"] = out
