"""CPython reference runtime for the model universe of spec/Sem.tla.

A program (term) is unparsed to Python source and *executed by CPython* on real
objects: sequences are a list subclass with Select/Where/SelectMany/First/Count/...,
model classes carry the same fields, method signatures and Mix() as Sem.tla.  This is
used (a) to keep Sem.Eval honest (spec vs CPython on every generated program) and
(b) as the "what Python computes" side of C01/C05/C06.
"""

import inspect

PRIMES = [7, 11, 13, 17, 19, 23]
KWCODE = {"a": 1, "b": 2, "c": 3, "x": 4, "y": 5, "z": 6, "scale": 7}


def mix(base, vals):
    tot = int(base)
    for i, v in enumerate(vals, start=1):
        if isinstance(v, bool):
            v = int(v)
        if not isinstance(v, int):
            raise Unmodelled("mix-nonint")
        tot += PRIMES[(i - 1) % len(PRIMES)] * (int(v) + i)
    return tot


class Unmodelled(Exception):
    pass


class Seq(list):
    def Select(self, f):
        return Seq([f(x) for x in self])

    def Where(self, f):
        return Seq([x for x in self if f(x)])

    def SelectMany(self, f):
        out = Seq()
        for x in self:
            r = f(x)
            if not isinstance(r, Seq):
                raise TypeError("notseq")
            out.extend(r)
        return out

    def First(self):
        return self[0]

    def Count(self):
        return len(self)

    def Sum(self):
        _ints(self)
        return sum(self)

    def Max(self):
        _ints(self)
        return max(list(self) + [0])

    def Min(self):
        _ints(self)
        return min(list(self) + [0])

    def Aggregate(self, init, f):
        acc = init
        for x in self:
            acc = f(acc, x)
        return acc

    def __call__(self):
        return self

    def __add__(self, o):
        if not isinstance(o, Seq):
            raise TypeError
        return Seq(list(self) + list(o))


def _ints(s):
    for x in s:
        if not isinstance(x, int):
            raise TypeError("sum")


def _need_seq(s):
    if not isinstance(s, Seq):
        raise TypeError("notseq")
    return s


def Select(s, f):
    return _need_seq(s).Select(f)


def Where(s, f):
    return _need_seq(s).Where(f)


def SelectMany(s, f):
    return _need_seq(s).SelectMany(f)


def First(s):
    return _need_seq(s).First()


def Count(s):
    if isinstance(s, (Seq, tuple, dict)):
        return len(s)
    raise TypeError("len")


def Sum(s):
    return _need_seq(s).Sum()


def Max(s):
    return _need_seq(s).Max()


def Min(s):
    return _need_seq(s).Min()


def Aggregate(s, init, f):
    return _need_seq(s).Aggregate(init, f)


def MetaData(s, d):
    return s


def _result(name):
    def r(s, *args):
        return (name, s) + tuple(args)
    return r


def myfn(x, y=2):
    return mix(3, [x, y])


def fn3(x, y=2, z=9):
    return mix(5, [x, y, z])


def py_len(s):
    if isinstance(s, (Seq, tuple, dict)):
        return len(s)
    raise TypeError("len")


def py_abs(x):
    if isinstance(x, int):
        return abs(int(x))
    raise Unmodelled("abs")


# method signatures, same table as Sem.MethodSig
def _sig_jet_pt(a=1, b=2, c=3):
    return [a, b, c]


def _sig_jet_eta(a, b=5):
    return [a, b]


def _sig_trk_pt(scale=1):
    return [scale]


def _sig_evt_met(a=4, b=6):
    return [a, b]


METHOD_SIG = {
    ("Jet", "pt"): _sig_jet_pt,
    ("Jet", "eta"): _sig_jet_eta,
    ("Trk", "pt"): _sig_trk_pt,
    ("Evt", "met"): _sig_evt_met,
}


class FInt(int):
    """An integer field that doubles as a method."""

    def __new__(cls, v, owner_cls, name):
        o = int.__new__(cls, v)
        o._owner = owner_cls
        o._name = name
        return o

    def __call__(self, *args, **kw):
        sig = METHOD_SIG.get((self._owner, self._name))
        if sig is not None:
            return mix(int(self), sig(*args, **kw))
        if not args and not kw:
            return int(self)
        vals = list(args)
        for k, v in kw.items():
            if k not in KWCODE:
                raise Unmodelled("kw-name")
            if isinstance(v, int):
                vals.append(int(v) * 31 + KWCODE[k])
            else:
                vals.append(v)
        return mix(int(self), vals)


class Obj:
    def __init__(self, cls, ident, fields):
        self._cls = cls
        self._id = ident
        self._fields = [k for k, _ in fields]
        for k, v in fields:
            setattr(self, k, v)

    def __eq__(self, o):
        return isinstance(o, Obj) and to_value(self) == to_value(o)

    def __hash__(self):
        return hash((self._cls, self._id))


def from_value(v, owner=None, name=None):
    """Build Python objects from a Sem value record (as exported by TLC)."""
    t = v["t"]
    if t == "int":
        if owner is not None:
            return FInt(v["n"], owner, name)
        return v["n"]
    if t == "bool":
        return bool(v["n"])
    if t == "str":
        return v["s"]
    if t == "none":
        return None
    if t == "list":
        return Seq([from_value(e) for e in v["e"]])
    if t == "tup":
        return tuple(from_value(e) for e in v["e"])
    if t == "dict":
        return {k: from_value(e) for k, e in zip(v["ks"], v["e"])}
    if t == "obj":
        return Obj(v["s"], v["n"], [(k, from_value(e, v["s"], k)) for k, e in zip(v["ks"], v["e"])])
    raise ValueError(t)


def V(t, n=0, s="", ks=(), e=()):
    return {"t": t, "n": n, "s": s, "ks": list(ks), "e": list(e)}


def to_value(x):
    if isinstance(x, bool):
        return V("bool", n=int(x))
    if isinstance(x, int):
        return V("int", n=int(x))
    if isinstance(x, str):
        return V("str", s=x)
    if x is None:
        return V("none")
    if isinstance(x, Seq):
        return V("list", e=[to_value(e) for e in x])
    if isinstance(x, list):
        return V("list", e=[to_value(e) for e in x])
    if isinstance(x, tuple):
        return V("tup", e=[to_value(e) for e in x])
    if isinstance(x, dict):
        ks = []
        for k in x:
            if isinstance(k, str):
                ks.append(k)
            elif isinstance(k, int) and not isinstance(k, bool):
                ks.append("#" + str(k))
            else:
                raise Unmodelled("dict-key")
        return V("dict", ks=ks, e=[to_value(e) for e in x.values()])
    if isinstance(x, Obj):
        return V("obj", n=x._id, s=x._cls, ks=x._fields,
                 e=[to_value(getattr(x, f)) for f in x._fields])
    raise Unmodelled("value " + type(x).__name__)


HELPERS_SRC = '''
def h_id(a):
    return a
def h_inc(a):
    return a + 1
def h_sub(a, b=5):
    return a - b
def h_d3(x, y=2, z=7):
    return x * 100 + (y * 10 + z)
'''


def base_env(ds):
    env = {
        "Select": Select, "Where": Where, "SelectMany": SelectMany, "First": First,
        "Count": Count, "Sum": Sum, "Max": Max, "Min": Min, "Aggregate": Aggregate,
        "MetaData": MetaData, "len": py_len, "abs": py_abs, "myfn": myfn, "fn3": fn3,
        "ResultTTree": _result("ResultTTree"), "ResultParquet": _result("ResultParquet"),
        "ResultAwkwardArray": _result("ResultAwkwardArray"),
        "ResultPandasDF": _result("ResultPandasDF"),
        "EventDataset": lambda: ds,
        "ds": ds,
        "CUT": 30, "SCALE": 2,
        "__builtins__": {},
    }
    exec(HELPERS_SRC, env)
    return env


def run_source(source, ds, extra=None):
    """Execute expression source on dataset ds; return a Sem value record."""
    env = base_env(ds)
    if extra:
        env.update(extra)
    try:
        code = compile(source, "<prog>", "eval")
    except SyntaxError:
        return V("err", s="SyntaxError")
    try:
        r = eval(code, env)
        return to_value(r)
    except Unmodelled as e:
        return V("unm", s=str(e))
    except RecursionError:
        return V("unm", s="recursion")
    except Exception as e:  # Python raised: an error value
        return V("err", s=type(e).__name__)


def values_agree(tlc_v, py_v):
    """Spec-vs-CPython comparison: unm on either side is skipped (None)."""
    if tlc_v["t"] == "unm" or py_v["t"] == "unm" or _deep_unm(tlc_v):
        return None
    if tlc_v["t"] == "err" or py_v["t"] == "err":
        return tlc_v["t"] == py_v["t"]
    return _norm(tlc_v) == _norm(py_v)


def _deep_unm(v):
    return v["t"] == "unm" or any(_deep_unm(e) for e in v["e"])


def _norm(v):
    return (v["t"], v["n"], v["s"], tuple(v["ks"]), tuple(_norm(e) for e in v["e"]))
