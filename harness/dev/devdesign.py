import sys, os
sys.path.insert(0,'/verif/harness')
import common, tlcrun
fam, budget = sys.argv[1], int(sys.argv[2])
invs = sys.argv[3].split(",")
naive = sys.argv[4] if len(sys.argv)>4 else "FALSE"
d = tlcrun.fresh_dir(common.outdir("C02", f"devdesign_{fam}{budget}"))
cfg = os.path.join(d, "mc.cfg")
tlcrun.write_cfg(cfg, constants={"Budget": budget, "Fam": '"%s"' % fam, "Rand": "FALSE", "Naive": naive}, invariants=invs)
st = tlcrun.run("Simplify", cfg, d, workers=16, timeout=3000, check=False)
print({k:v for k,v in st.items() if k!='output'})
if st.get("violated"): print(st.get("output","")[-3000:])
