#!/bin/sh
# withseed.sh <seed-id> <command...> : run command with func_adl = HEAD + seeded patch (scratch worktree), /verif as is
sid=$1; shift
wt=/tmp/ws_$sid
git -C /repo worktree remove --force $wt >/dev/null 2>&1
git -C /repo worktree add --detach $wt ${BASE:-HEAD} >/dev/null 2>&1 || exit 3
git -C $wt apply /verif/seeded/$sid/patch.diff || { echo "PATCH DOES NOT APPLY"; git -C /repo worktree remove --force $wt; exit 3; }
PYTHONPATH=$wt PYTHONDONTWRITEBYTECODE=1 "$@"
rc=$?
git -C /repo worktree remove --force $wt >/dev/null 2>&1
exit $rc
