import sys, os, collections
sys.path.insert(0,'/verif/harness')
import common, replay_passes, codec
fam, budget = sys.argv[1], int(sys.argv[2])
pass_name = sys.argv[3] if len(sys.argv)>3 else "simplify"
prop = sys.argv[4] if len(sys.argv)>4 else "C02"
import time
t0=time.time()
progs, st = common.gen_programs(prop, "dev_"+fam, fam, budget)
print("generated", len(progs), st.get("states"), round(time.time()-t0,1))
KEEP=int(os.environ.get("KEEP","0"))
if KEEP: progs=common.subsample_stratified(progs, KEEP, salt="dev")
jobs=[(i,pass_name,p,{"shape":prop=="C14"}) for i,p in enumerate(progs)]
recs = replay_passes.run_many(jobs)
vrecs = [{"id": r["id"], "pass": "simplify", "in": r["in"], "out": r["out"], "exc": r["exc"],
          "flags": {"compiles": r["flags"]["compiles"], "shape": r["flags"]["shape"]}} for r in recs]
verdicts, vst = common.validate(prop, "simplify", "TracePass", vrecs)
c=collections.Counter()
shown=0
byid={r["id"]:r for r in recs}
for cid,v in sorted(verdicts.items()):
    key = v["v"] if v["v"]!="REJECT" else "REJECT:"+v["clause"]
    if v["v"]=="UNMODELLED": key += ":"+str(v.get("clause") or v.get("witness"))
    c[key]+=1
    if v["v"]!="ACCEPT" and shown<8:
        shown+=1
        r=byid[cid]
        print(key, "|", codec.src(r["in"]), "->", codec.src(r["out"]) if r["exc"]=="" else r["exc"])
nt=sum(1 for v in verdicts.values() if v["v"]=="ACCEPT" and v["nontrivial"] and v["changed"])
print(dict(c), "nontrivial", nt, round(time.time()-t0,1))
