"""Shared plumbing of the checks: TLC generation, sharded TLC trace validation,
evidence files, known findings, VIOLATION lines."""

import hashlib
import json
import os
import random
import sys
import time

import codec
import tlcrun

# everything is relative to the checkout this file lives in (so that a snapshot of /verif is self-contained)
VERIF_ROOT = os.path.dirname(os.path.dirname(os.path.abspath(__file__)))
OUT_ROOT = os.path.join(VERIF_ROOT, "out")
EVIDENCE_DIR = os.path.join(VERIF_ROOT, "evidence")
FINDINGS_FILE = os.path.join(VERIF_ROOT, "known_findings.json")


class MachineryError(Exception):
    """Something in the verification machinery itself failed (exit 2, never a VIOLATION)."""


def seed():
    try:
        return int(os.environ.get("VERIF_SEED", "0"))
    except ValueError:
        return 0


def tier_from_env(default="quick"):
    t = os.environ.get("VERIF_TIER", default)
    return t if t in ("quick", "thorough") else default


def outdir(prop, sub=""):
    p = os.path.join(OUT_ROOT, prop, sub) if sub else os.path.join(OUT_ROOT, prop)
    os.makedirs(p, exist_ok=True)
    return p


def term_key(t):
    return codec.dumps(t)


# ----------------------------------------------------------------------------------
# generation: TLC derivation grammar -> programs
def gen_programs(prop, name, fam, budget, workers=16, simulate=None, timeout=3600, module="GenProg",
                 extra_constants=None, extra_args=()):
    d = tlcrun.fresh_dir(outdir(prop, "gen_" + name))
    cfg = os.path.join(d, "gen.cfg")
    consts = {"Budget": budget, "Fam": '"%s"' % fam, "Rand": "TRUE" if simulate else "FALSE"}
    if extra_constants:
        consts.update(extra_constants)
    tlcrun.write_cfg(cfg, constants=consts, invariants=["Export"])
    out = os.path.join(d, "programs.ndjson")
    st = tlcrun.run(module, cfg, d, env={"OUT_FILE": out}, workers=workers, simulate=simulate,
                    timeout=timeout, extra_args=extra_args)
    progs = []
    seen = set()
    if os.path.exists(out):
        with open(out) as f:
            for line in f:
                line = line.strip()
                if not line or line in seen:
                    continue
                seen.add(line)
                progs.append(json.loads(line))
    progs.sort(key=term_key)
    return progs, st


def subsample(items, n, salt=""):
    if len(items) <= n:
        return list(items)
    rnd = random.Random(f"{seed()}:{salt}")
    idx = sorted(rnd.sample(range(len(items)), n))
    return [items[i] for i in idx]


def term_features(t, acc=None):
    """coarse feature set of a program: node kinds, called names / attributes of calls, operators, keywords"""
    if acc is None:
        acc = set()
    k = t["k"]
    acc.add(k)
    if k == "call":
        f = t["a"][0]
        if f["k"] == "name":
            acc.add("fn:" + f["s"])
        elif f["k"] == "attr":
            acc.add("m:" + f["s"])
        elif f["k"] == "lam":
            acc.add("called-lambda")
        if t["p"]:
            acc.add("kw")
            if any(has_feature_call(c) for c in t["a"][1 + t["n"]:]):
                acc.add("kw-with-call")
    elif k in ("binop", "unop", "boolop"):
        acc.add(k + t["s"])
    elif k == "sub":
        acc.add("sub:" + t["a"][1]["k"])
    for c in t["a"]:
        term_features(c, acc)
    return acc


def has_feature_call(t):
    if t["k"] == "call" and t["a"][0]["k"] == "attr":
        return True
    return any(has_feature_call(c) for c in t["a"])


def subsample_stratified(items, n, salt="", key=None):
    """Seeded sub-sample that keeps rare shapes: items are grouped by feature set and the groups are
    drained round-robin, so a construct that occurs in few programs is never sampled away."""
    if len(items) <= n:
        return list(items)
    key = key or (lambda t: tuple(sorted(term_features(t))))
    rnd = random.Random(f"{seed()}:{salt}")
    groups = {}
    for i, it in enumerate(items):
        groups.setdefault(key(it), []).append(i)
    order = sorted(groups)
    for g in order:
        rnd.shuffle(groups[g])
    picked = []
    while len(picked) < n:
        progressed = False
        for g in order:
            if groups[g]:
                picked.append(groups[g].pop())
                progressed = True
                if len(picked) >= n:
                    break
        if not progressed:
            break
    return [items[i] for i in sorted(picked)]


# ----------------------------------------------------------------------------------
# validation: records -> TLC (sharded) -> verdicts
def validate(prop, name, module, records, nshards=16, timeout=3600, extra_env=None, xmx="3g",
             group=None, rec_id=None, verdict_id=None, per_shard=200, spec="Spec", constants=None):
    """records -> TLC trace spec (sharded over single-worker JVMs) -> verdicts by id.
    group: function(record) -> key; records of one group stay together, in order (histories).
    rec_id / verdict_id: functions giving the id of a record / of a verdict line."""
    rec_id = rec_id or (lambda r: r["id"])
    verdict_id = verdict_id or (lambda v: v["id"])
    d = tlcrun.fresh_dir(outdir(prop, "val_" + name))
    if not records:
        return {}, {"generated": 0, "distinct": 0, "wall_s": 0.0}
    nshards = max(1, min(nshards, (len(records) + per_shard - 1) // per_shard))
    parts = [[] for _ in range(nshards)]
    if group is None:
        for i, r in enumerate(records):
            parts[i % nshards].append(r)
    else:
        order = {}
        for r in records:
            k = group(r)
            if k not in order:
                order[k] = len(order)
            parts[order[k] % nshards].append(r)
    cfg = os.path.join(d, "trace.cfg")
    tlcrun.write_cfg(cfg, spec=spec, constants=constants, postcondition="Accepted")
    envs = []
    for i in range(nshards):
        inf = os.path.join(d, f"in{i}.ndjson")
        codec.write_ndjson(inf, parts[i])
        env = {"IN_FILE": inf, "OUT_FILE": os.path.join(d, f"verdict{i}.ndjson")}
        if extra_env:
            env.update(extra_env)
        envs.append(env)
    results, wall = tlcrun.run_shards(module, cfg, d, envs, xmx=xmx, timeout=timeout)
    verdicts = {}
    for i in range(nshards):
        vf = os.path.join(d, f"verdict{i}.ndjson")
        if os.path.exists(vf):
            for v in codec.load_ndjson(vf):
                verdicts[verdict_id(v)] = v
    missing = [rec_id(r) for r in records if rec_id(r) not in verdicts]
    if missing:
        raise MachineryError(f"{module}: {len(missing)} records have no verdict (first id {missing[0]})")
    stats = {
        "generated": sum(r["generated"] for r in results),
        "distinct": sum(r["distinct"] for r in results),
        "wall_s": wall,
    }
    return verdicts, stats


# ----------------------------------------------------------------------------------
# known findings
def load_findings(prop):
    if not os.path.exists(FINDINGS_FILE):
        return []
    data = json.load(open(FINDINGS_FILE))
    return [f for f in data.get("open", []) if f["property"] == prop]


# ----------------------------------------------------------------------------------
class Report:
    """Collects what a check did; writes evidence; prints VIOLATION / KNOWN-FINDING lines."""

    def __init__(self, prop, tier, level="model_checking"):
        self.prop = prop
        self.tier = tier
        self.level = level
        self.t0 = time.time()
        self.states = 0
        self.transitions = 0
        self.traces = 0
        self.evaluations = 0
        self.nontrivial = 0
        self.samples = []
        self.violations = []      # (case-id, clause, replay dict)
        self.known = {}           # finding id -> count
        self.extra = {}
        self.assumptions = []
        self.rule = ""
        self.exhaustive = False
        self.findings = load_findings(prop)
        import shutil
        shutil.rmtree(os.path.join(OUT_ROOT, "replay", prop), ignore_errors=True)

    def add_tlc(self, st):
        self.states += int(st.get("distinct", 0))
        self.transitions += int(st.get("generated", 0))
        if os.environ.get("VERIF_TIMING"):      # development aid: where the time goes
            print(f"  [timing] t={time.time() - self.t0:7.1f}s  tlc_wall={float(st.get('wall_s', 0)):6.1f}s  "
                  f"distinct={st.get('distinct')}", flush=True)

    def sample(self, obj, limit=6):
        if len(self.samples) < limit:
            self.samples.append(obj)

    def classify(self, tags):
        """tags: set of known-finding class names attached to the case by TLC/harness.
        Returns the finding entry that covers it, or None."""
        for f in self.findings:
            if f["class"] in tags:
                return f
        return None

    def reject(self, case_id, clause, replay, tags=()):
        f = self.classify(set(tags))
        if f is not None and clause in f.get("clauses", [clause]):
            self.known[f["id"]] = self.known.get(f["id"], 0) + 1
            return
        self.violations.append((case_id, clause, replay))

    def finish(self):
        os.makedirs(EVIDENCE_DIR, exist_ok=True)
        rdir = os.path.join(OUT_ROOT, "replay", self.prop)
        os.makedirs(rdir, exist_ok=True)
        lines = []
        shown = 0
        for (cid, clause, replay) in self.violations:
            h = hashlib.sha1(codec.dumps(replay).encode()).hexdigest()[:12]
            path = os.path.join(rdir, f"{h}.json")
            with open(path, "w") as f:
                json.dump(replay, f, indent=1)
            if shown < 25:
                lines.append(f"VIOLATION property={self.prop} replay={path}")
                shown += 1
        for f in self.findings:
            n = self.known.get(f["id"], 0)
            if n:
                lines.append(f"KNOWN-FINDING: property={self.prop} {f['id']}: {f['what']} ({n} cases this run)")
        cov = {
            "states": max(self.states, 0),
            "transitions": max(self.transitions, 0),
            "traces_validated_against_impl": self.traces,
            "samples": self.samples or ["(none)"],
            "evaluations": self.evaluations,
            "distinct_nontrivial": self.nontrivial,
            "rule": self.rule,
            "exhaustive": self.exhaustive,
            "known_findings_hit": self.known,
        }
        cov.update(self.extra)
        ev = {
            "property_id": self.prop,
            "tier": self.tier,
            "seed": seed(),
            "level": self.level,
            "coverage": cov,
            "assumptions": self.assumptions,
            "wall_s": round(time.time() - self.t0, 2),
            "violations": len(self.violations),
        }
        with open(os.path.join(EVIDENCE_DIR, f"{self.prop}.json"), "w") as f:
            json.dump(ev, f, indent=1)
        for ln in lines:
            print(ln)
        print(f"[{self.prop}] tier={self.tier} states={self.states} transitions={self.transitions} "
              f"traces={self.traces} nontrivial={self.nontrivial} violations={len(self.violations)} "
              f"known={sum(self.known.values())} wall={ev['wall_s']}s")
        sys.stdout.flush()
        return 1 if self.violations else 0
