"""C07 (typed call sites normalised to full positional form)."""

import json
import os

import codec
import common
import replay_typed
import tlcrun

PLANS = {"quick": {"MaxParams": 3}, "thorough": {"MaxParams": 4}}


def gen_cases(prop, maxp, contexts):
    d = tlcrun.fresh_dir(common.outdir(prop, "gen"))
    cfg = os.path.join(d, "gen.cfg")
    tlcrun.write_cfg(cfg, constants={"MaxParams": maxp, "Contexts": "{" + ",".join(str(c) for c in contexts) + "}"},
                     invariants=["Export"])
    out = os.path.join(d, "cases.ndjson")
    st = tlcrun.run("GenCalls", cfg, d, env={"OUT_FILE": out}, workers=4)
    cases = sorted({line.strip() for line in open(out) if line.strip()})
    return [json.loads(c) for c in cases], st


def run_c07(prop, tier):
    rep = common.Report(prop, tier)
    maxp = PLANS[tier]["MaxParams"]
    cases, st = gen_cases(prop, maxp, sorted(replay_typed.CONTEXTS))
    rep.add_tlc(st)
    recs = [replay_typed.run_case(i, c) for i, c in enumerate(cases)]
    vrecs = [{k: r[k] for k in ("id", "kind", "sig", "shape", "mname", "out", "exc")} for r in recs]
    out, vst = common.validate(prop, "calls", "TraceTyped", vrecs, per_shard=400,
                               verdict_id=lambda v: v["verdict"]["id"])
    rep.add_tlc(vst)
    rep.traces = len(recs)
    rep.evaluations = len(recs)
    counts = {}
    per_ctx = {}
    for cid, o in sorted(out.items()):
        v, spec = o["verdict"], o["spec"]
        r = recs[cid]
        # spec honesty: TypeFollow.Missing / Normalized against CPython's inspect.Signature.bind
        ok, vals = replay_typed.python_bind(r["sig"], r["shape"])
        want = [(t["n"] if t["k"] == "int" else t["s"]) for t in spec["want"]]
        if ok == spec["miss"] or (ok and want != vals):
            raise common.MachineryError(f"TypeFollow.Normalized disagrees with inspect.Signature.bind on {r['sig']} "
                                        f"{r['shape']}: spec {spec} python {(ok, vals)}")
        key = v["v"] + (":" + v["clause"] if v["clause"] else "")
        counts[key] = counts.get(key, 0) + 1
        pc = per_ctx.setdefault(str(r["ctx"]), {"what": replay_typed.CONTEXTS[r["ctx"]][0], "cases": 0, "rejected": 0})
        pc["cases"] += 1
        if v["v"] == "ACCEPT":
            if v["nontrivial"]:
                rep.nontrivial += 1
            if cid % 211 == 0:
                rep.sample({"query": "ds" + r["source"], "emitted": codec.src(r["out"]) if not r["exc"] else r["exc"]})
        elif v["v"] == "REJECT":
            pc["rejected"] += 1
            rep.reject(cid, v["clause"], {"property": prop, "case": cases[cid], "query": "ds" + r["source"],
                                          "observed": codec.src(r["out"]) if not r["exc"] else r["exc"] + " " + r.get("msg", ""),
                                          "verdict": v, "expected_arguments": want, "must_refuse": spec["miss"]})
        else:
            raise common.MachineryError("UNMODELLED record in C07")
    rep.extra.update(verdicts=counts, contexts=per_ctx, MaxParams=maxp,
                     spec_vs_inspect_signature_bind="agree on all %d cases" % len(recs))
    rep.exhaustive = True
    rep.rule = ("cases = Init states of spec/GenCalls.tla: every signature with 0..MaxParams parameters (required first, "
                "int or str defaults) x every call shape (k positional, every ordered subset of the remaining parameters "
                "by keyword, including shapes missing a required parameter) x 10 placements of the call site (depth 0-3 "
                "through typed method chains, collection operators, Where, First, a dictionary field, re-used parameter "
                "name with a same-named method of another signature on the outer class, registered functions); real "
                "classes are generated per signature; TLC judges the emitted call against TypeFollow.Normalized / Missing; "
                "non-trivial = the call site needs a keyword moved or a default filled, or must be refused")
    rep.assumptions = ["values are distinct small ints; defaults are ints or strs"]
    return rep.finish()
