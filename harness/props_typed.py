"""C07 (typed call sites normalised to full positional form)."""

import json
import os

import codec
import common
import replay_typed
import tlcrun

PLANS = {"quick": {"MaxParams": 3}, "thorough": {"MaxParams": 4}}


def gen_cases(prop, maxp, contexts):
    d = tlcrun.fresh_dir(common.outdir(prop, "gen"))
    cfg = os.path.join(d, "gen.cfg")
    tlcrun.write_cfg(cfg, constants={"MaxParams": maxp, "Contexts": "{" + ",".join(str(c) for c in contexts) + "}"},
                     invariants=["Export"])
    out = os.path.join(d, "cases.ndjson")
    st = tlcrun.run("GenCalls", cfg, d, env={"OUT_FILE": out}, workers=4)
    cases = sorted({line.strip() for line in open(out) if line.strip()})
    return [json.loads(c) for c in cases], st


def run_c07(prop, tier):
    rep = common.Report(prop, tier)
    maxp = PLANS[tier]["MaxParams"]
    cases, st = gen_cases(prop, maxp, sorted(replay_typed.CONTEXTS))
    rep.add_tlc(st)
    recs = [replay_typed.run_case(i, c) for i, c in enumerate(cases)]
    vrecs = [{k: r[k] for k in ("id", "kind", "sig", "shape", "mname", "out", "exc")} for r in recs]
    out, vst = common.validate(prop, "calls", "TraceTyped", vrecs, per_shard=400,
                               verdict_id=lambda v: v["verdict"]["id"])
    rep.add_tlc(vst)
    rep.traces = len(recs)
    rep.evaluations = len(recs)
    counts = {}
    per_ctx = {}
    for cid, o in sorted(out.items()):
        v, spec = o["verdict"], o["spec"]
        r = recs[cid]
        # spec honesty: TypeFollow.Missing / Normalized against CPython's inspect.Signature.bind
        ok, vals = replay_typed.python_bind(r["sig"], r["shape"])
        want = [(t["n"] if t["k"] == "int" else t["s"]) for t in spec["want"]]
        if ok == spec["miss"] or (ok and want != vals):
            raise common.MachineryError(f"TypeFollow.Normalized disagrees with inspect.Signature.bind on {r['sig']} "
                                        f"{r['shape']}: spec {spec} python {(ok, vals)}")
        key = v["v"] + (":" + v["clause"] if v["clause"] else "")
        counts[key] = counts.get(key, 0) + 1
        pc = per_ctx.setdefault(str(r["ctx"]), {"what": replay_typed.CONTEXTS[r["ctx"]][0], "cases": 0, "rejected": 0})
        pc["cases"] += 1
        if v["v"] == "ACCEPT":
            if v["nontrivial"]:
                rep.nontrivial += 1
            if cid % 211 == 0:
                rep.sample({"query": "ds" + r["source"], "emitted": codec.src(r["out"]) if not r["exc"] else r["exc"]})
        elif v["v"] == "REJECT":
            pc["rejected"] += 1
            rep.reject(cid, v["clause"], {"property": prop, "case": cases[cid], "query": "ds" + r["source"],
                                          "observed": codec.src(r["out"]) if not r["exc"] else r["exc"] + " " + r.get("msg", ""),
                                          "verdict": v, "expected_arguments": want, "must_refuse": spec["miss"]})
        else:
            raise common.MachineryError("UNMODELLED record in C07")
    rep.extra.update(verdicts=counts, contexts=per_ctx, MaxParams=maxp,
                     spec_vs_inspect_signature_bind="agree on all %d cases" % len(recs))
    rep.exhaustive = True
    rep.rule = ("cases = Init states of spec/GenCalls.tla: every signature with 0..MaxParams parameters (required first, "
                "int or str defaults) x every call shape (k positional, every ordered subset of the remaining parameters "
                "by keyword, including shapes missing a required parameter) x 10 placements of the call site (depth 0-3 "
                "through typed method chains, collection operators, Where, First, a dictionary field, re-used parameter "
                "name with a same-named method of another signature on the outer class, registered functions); real "
                "classes are generated per signature; TLC judges the emitted call against TypeFollow.Normalized / Missing; "
                "non-trivial = the call site needs a keyword moved or a default filled, or must be refused")
    rep.assumptions = ["values are distinct small ints; defaults are ints or strs"]
    # which signature applies to a registered function is decided by the process-wide registry: spec/Registry.tla
    import registry
    registry.component(prop, tier, rep)
    return rep.finish()


# ------------------------------------------------------------------------------------------------
# C08
PLANS08 = {"quick": [(2, 3, 9000)], "thorough": [(2, 3, None), (3, 3, 60000), (2, 4, 60000)]}


def run_c08(prop, tier):
    rep = common.Report(prop, tier)
    cases = []
    fams = {}
    ns = None
    for (maxops, maxext, keep) in PLANS08[tier]:
        d = tlcrun.fresh_dir(common.outdir(prop, f"gen_{maxops}_{maxext}"))
        cfg = os.path.join(d, "gen.cfg")
        tlcrun.write_cfg(cfg, constants={"MaxOps": maxops, "MaxExt": maxext}, invariants=["Export"])
        st = tlcrun.run("GenTypes", cfg, d, env={"OUT_FILE": os.path.join(d, "c.ndjson"),
                                                 "UNIVERSE_FILE": os.path.join(d, "u.ndjson")}, workers=16)
        rep.add_tlc(st)
        if ns is None:
            classes = codec.load_ndjson(os.path.join(d, "u.ndjson"))
            src = replay_typed.universe_source(classes)
            # a real module, so that string annotations resolve (get_type_hints looks in sys.modules)
            import sys
            import types
            umod = types.ModuleType("c08_universe")
            sys.modules["c08_universe"] = umod
            ns = umod.__dict__
            exec(compile(src, "<universe C08>", "exec"), ns)
            rep.extra["universe"] = [c["name"] + ("[" + ",".join(c["params"]) + "]" if c["params"] else "")
                                     for c in classes]
        got = sorted({line.strip() for line in open(os.path.join(d, "c.ndjson")) if line.strip()})
        total = len(got)
        got = [json.loads(c) for c in got]
        if keep is not None:
            got = common.subsample(got, keep, salt=f"c08{maxops}{maxext}")
        fams[f"ops{maxops}_ext{maxext}"] = {"generated": total, "replayed": len(got), "exhaustive": len(got) == total}
        cases += got
    recs = [replay_typed.run_types_case(i, c, ns) for i, c in enumerate(cases)]
    vrecs = [{"id": r["id"], "kind": "types", "ops": r["ops"],
              "obs": [{"res": o["res"], "ty": o["ty"]} for o in r["obs"]]} for r in recs]
    out, vst = common.validate(prop, "types", "TraceTyped", vrecs, per_shard=600,
                               verdict_id=lambda v: v["verdict"]["id"])
    rep.add_tlc(vst)
    rep.traces = len(recs)
    rep.evaluations = len(recs)
    counts = {}
    seen_types = set()
    for cid, o in sorted(out.items()):
        v = o["verdict"]
        r = recs[cid]
        key = v["v"] + (":" + v["clause"] if v["clause"] else "")
        counts[key] = counts.get(key, 0) + 1
        if v["v"] == "ACCEPT":
            rep.nontrivial += 1
            for w in o["spec"]["want"]:
                seen_types.add(codec.dumps(w["ty"]))
            if cid % 1499 == 0:
                rep.sample({"query": r["source"], "item_types": [type_src(w["ty"]) if w["res"] == "ok" else w["res"]
                                                                 for w in o["spec"]["want"]]})
        elif v["v"] == "REJECT":
            st = int(v["info"]) - 1
            rep.reject(cid, v["clause"], {"property": prop, "query": r["source"], "stage": st + 1,
                                          "observed": {"res": r["obs"][st]["res"], "type": type_src(r["obs"][st]["ty"]),
                                                       "msg": r["obs"][st].get("msg", "")},
                                          "expected": {"res": o["spec"]["want"][st]["res"],
                                                       "type": type_src(o["spec"]["want"][st]["ty"])},
                                          "case": cases[cid], "verdict": v})
        else:
            raise common.MachineryError("UNMODELLED record in C08")
    rep.extra.update(families=fams, verdicts=counts, distinct_expected_types=len(seen_types))
    rep.rule = ("cases = behaviours of spec/GenTypes.tla: the type follower as a transition system over the class model "
                "of TypeFollow.Universe (plain classes, Generic[T] class, generic subclass fixing T, generic subclass "
                "re-parameterising, custom Iterable subclass with own methods and a subclass fixing its parameter, a "
                "registered collection class adding operators, methods without return annotation); each step applies one "
                "typing rule that fits the current type; chains of <= MaxOps Select/SelectMany/Where; real classes are "
                "generated from the exported class model; TLC judges observed item types / Where refusal against "
                "TypeFollow.StreamResult; non-trivial = accepted chain (every chain exercises at least one rule)")
    rep.exhaustive = all(f["exhaustive"] for f in fams.values())
    rep.assumptions = ["one class model family (spec/TypeFollow.tla Universe); single inheritance"]
    return rep.finish()


def type_src(t):
    if t["k"] == "rec":
        return "{" + ", ".join(f"{k}: {type_src(v)}" for k, v in zip(t["p"], t["a"])) + "}"
    if t["a"]:
        return t["s"] + "[" + ", ".join(type_src(a) for a in t["a"]) + "]"
    return t["s"]


# ------------------------------------------------------------------------------------------------
# C09
def run_c09(prop, tier):
    rep = common.Report(prop, tier)
    d = tlcrun.fresh_dir(common.outdir(prop, "gen"))
    cfg = os.path.join(d, "gen.cfg")
    ctxs = sorted(replay_typed.CB_CONTEXTS)
    tlcrun.write_cfg(cfg, constants={"Contexts": "{" + ",".join(str(c) for c in ctxs) + "}"}, invariants=["Export"])
    out = os.path.join(d, "cases.ndjson")
    st = tlcrun.run("GenCallbacks", cfg, d, env={"OUT_FILE": out}, workers=4)
    rep.add_tlc(st)
    cases = [json.loads(c) for c in sorted({line.strip() for line in open(out) if line.strip()})]
    recs = [replay_typed.run_callback_case(i, c) for i, c in enumerate(cases)]
    vrecs = [{k: r[k] for k in ("id", "kind", "cs", "fired", "upstream", "calls", "params", "exc")} for r in recs]
    res, vst = common.validate(prop, "callbacks", "TraceTyped", vrecs, per_shard=100,
                               verdict_id=lambda v: v["verdict"]["id"])
    rep.add_tlc(vst)
    rep.traces = len(recs)
    rep.evaluations = len(recs)
    counts = {}
    for cid, o in sorted(res.items()):
        v = o["verdict"]
        r = recs[cid]
        key = v["v"] + (":" + v["clause"] if v["clause"] else "")
        counts[key] = counts.get(key, 0) + 1
        if v["v"] == "ACCEPT":
            rep.nontrivial += 1
            if cid % 61 == 0:
                rep.sample({"case": r["cs"], "query": r["source"], "fired": r["fired"], "emitted": r.get("query", "")})
        elif v["v"] == "REJECT":
            rep.reject(cid, v["clause"], {"property": prop, "case": r["cs"], "query": r["source"],
                                          "context": replay_typed.CB_CONTEXTS[r["cs"]["ctx"]][0],
                                          "fired": r["fired"], "upstream_metadata": r["upstream"],
                                          "emitted_query": r.get("query", ""), "exc": r["exc"] + " " + r.get("msg", ""),
                                          "verdict": v},
                       tags=kf_tags_c09(r))
        else:
            raise common.MachineryError("UNMODELLED record in C09")
    rep.extra.update(verdicts=counts, contexts={str(k): v[0] for k, v in replay_typed.CB_CONTEXTS.items()})
    rep.exhaustive = True
    rep.rule = ("cases = Init states of spec/GenCallbacks.tla: callback placement (class / method / both / function "
                "processor / parameterised property) x 8 call-site contexts (depth 0-3 in Select / Where / SelectMany "
                "lambdas of the stream and of typed collections, first or second stage, on First()) x one or two call "
                "sites x callbacks that rewrite the call site or not; every class of a generated model carries the "
                "placement, a decoy class with callbacks is never used; callbacks log (kind, site) and attach "
                "MetaData; TLC judges firings (multiset, class before method, none for absent sites), MetaData upstream "
                "of the operator holding the site, the emitted (rewritten) call, parameters by value")
    rep.assumptions = ["call sites are identified by their first (constant) argument"]
    return rep.finish()


def kf_tags_c09(r):
    return set()
