"""Replay TLC-generated histories of spec/Streams.tla on the real ObjectStream /
EventDataset and log the projected state after every step (for TraceStreams)."""

import ast
import asyncio
import multiprocessing as mp
import typing
from typing import Any, Iterable

import codec

import logging
logging.disable(logging.WARNING)

KEYS = ["a", "b"]

# call sites with real lambdas for the "callable" supply: the lambda is written directly in
# the operator call, which is the layout source recovery supports
def _sel_met(s):
    return s.Select(lambda e: e.met())


def _where_cut(s):
    return s.Where(lambda e: e.met() > 1)


def _selmany_jets(s):
    return s.SelectMany(lambda e: e.jets())


def _sel_nest(s):
    return s.Select(lambda e: e.jets().Select(lambda j: j.pt()))


def _sel_kw(s):
    return s.Select(lambda e: e.met(a=e.met()))


_CALLSITES = {("Select", "lambda e: e.met(a=e.met())"): _sel_kw, ("Select", "lambda e: e.jets().Select(lambda j: j.pt())"): _sel_nest, ("Select", "lambda e: e.met()"): _sel_met, ("Where", "lambda e: e.met() > 1"): _where_cut,
              ("SelectMany", "lambda e: e.jets()"): _selmany_jets}
_SHARED_AST = {}


class Jet:
    def pt(self, a: int = 1) -> int: ...  # noqa


class Evt:
    def met(self, a: int = 4) -> int: ...  # noqa

    def jets(self) -> Iterable[Jet]: ...  # noqa


def exc_for(c):
    """what executor call c raises when the history says it raises: the class rotates (the library must hand on
    whatever the executor raised, also exception types it raises itself elsewhere)"""
    cls = (Boom, AttributeError, IndexError, KeyError, ValueError)[c % 5]
    return cls(c)


def is_exc_for(ex, c):
    want = exc_for(c)
    return type(ex) is type(want) and ex.args == want.args


class Boom(Exception):
    pass


def type_str(t):
    if t is Any:
        return "Any"
    o = typing.get_origin(t)
    if o is not None:
        return getattr(o, "__name__", str(o)) + "[" + ",".join(type_str(a) for a in typing.get_args(t)) + "]"
    if isinstance(t, type):
        return t.__name__
    return str(t)


def _qval(x):
    """query-metadata value as the model sees it: unset (None) = 0, the falsy value 0 = 3"""
    if x is None:
        return 0
    return 3 if x == 0 else x


def _pyval(v):
    if v == 4:
        return None
    return 0 if v == 3 else v


def _derive(stream, op, term, how):
    src = codec.src(term)
    if how == 2 and (op, src) in _CALLSITES:
        return _CALLSITES[(op, src)](stream)
    if how == 1:
        if src not in _SHARED_AST:
            _SHARED_AST[src] = ast.parse(src).body[0].value
        # the very same ast object, re-used across calls and histories
        return getattr(stream, op)(_SHARED_AST[src])
    return getattr(stream, op)(src)


class _FalsyExecutor:
    """an override executor object that is falsy (e.g. an empty recording container): still 'the override given'"""

    def __init__(self, f):
        self._f = f

    def __bool__(self):
        return False

    def __len__(self):
        return 0

    def __call__(self, a, title=None):
        return self._f(a, title)


class History:
    def __init__(self, tid, actions):
        from func_adl import EventDataset
        self.tid = tid
        self.actions = actions
        self.loop = asyncio.new_event_loop()
        self.execlog = []          # every executor invocation [c?, target, ast, title, fut]
        self.streams = []
        self.shadow = []
        self.tasks = {}            # c -> (task, fut)
        self.reported_done = set()
        self.sync_reply = None
        self.sync_done = []
        self.nds = 0
        hist = self

        class DS(EventDataset):
            def __init__(self, idx, typed, shadow=False):
                super().__init__(Evt if typed else Any)
                self.idx = idx
                self.is_shadow = shadow

            async def execute_result_async(self, a, title=None):
                return await hist._executor(self.idx, a, title)

        class DSPlain(DS):
            """the same dataset with an executor that is NOT a coroutine function: it hands back an awaitable
            (a Task), as executors built on futures / run_in_executor do"""

            def execute_result_async(self, a, title=None):
                return asyncio.ensure_future(hist._executor(self.idx, a, title))

        self.DS = lambda idx, typed, shadow=False: (DSPlain if (tid + abs(idx)) % 2 == 0 else DS)(idx, typed, shadow=shadow)

    async def _executor(self, target, a, title):
        if self.sync_reply is not None:
            kind, val, c = self.sync_reply
            self.execlog.append({"target": target, "node": a, "title": title, "fut": None})
            if kind == "raise":
                raise exc_for(c)
            return val
        fut = self.loop.create_future()
        self.execlog.append({"target": target, "node": a, "title": title, "fut": fut})
        return await fut

    async def _override(self, a, title=None):
        return await self._executor(0, a, title)

    def _step_loop(self):
        for _ in range(6):
            self.loop.call_soon(self.loop.stop)
            self.loop.run_forever()

    def run(self):
        from func_adl.ast.ast_hash import calc_ast_hash
        from func_adl.ast.meta_data import lookup_query_metadata, remove_empty_metadata
        recs = []
        try:
            for step, a in enumerate(self.actions, start=1):
                nexec0 = len(self.execlog)
                exc = ""
                try:
                    self._do(a, step)
                except Exception as e:  # the library raised
                    exc = type(e).__name__ + ": " + str(e)[:80]
                newexec = []
                for e in self.execlog[nexec0:]:
                    sh = None
                    if a["act"] in ("ValueStart", "ValueSync"):
                        sh = remove_empty_metadata(self.shadow[a["s"] - 1].query_ast)
                    newexec.append({
                        "target": e["target"], "ast": codec.enc(e["node"]),
                        "title": e["title"] if e["title"] is not None else "",
                        "hash": calc_ast_hash(e["node"]),
                        "shash": calc_ast_hash(sh) if sh is not None else "",
                        "dump": str(hash(ast.dump(e["node"]))),
                        "sdump": str(hash(ast.dump(sh))) if sh is not None else "",
                    })
                done = list(self.sync_done)
                self.sync_done = []
                for c, (task, fut) in sorted(self.tasks.items()):
                    if task.done() and c not in self.reported_done:
                        self.reported_done.add(c)
                        if task.cancelled():
                            done.append({"c": c, "kind": "cancelled", "val": 0})
                        elif task.exception() is not None:
                            ex = task.exception()
                            ok = is_exc_for(ex, c)
                            done.append({"c": c, "kind": "raise" if ok else "raise-other", "val": 0})
                        else:
                            r = task.result()
                            done.append({"c": c, "kind": "ret", "val": r if isinstance(r, int) else -1})
                recs.append({
                    "tid": self.tid, "step": step, "a": a,
                    "views": [codec.enc(s.query_ast) for s in self.streams],
                    "types": [type_str(s.item_type) for s in self.streams],
                    "lookups": [[_qval(lookup_query_metadata(s, k)) for k in KEYS] for s in self.streams],
                    "newexec": newexec, "done": done, "exc": exc,
                    "roots": [self._root_of(s) for s in self.streams],
                    "mix": self._mix() if step == len(self.actions) else [],
                })
                if exc:
                    break           # later steps would refer to streams that do not exist
        finally:
            for c, (task, fut) in self.tasks.items():
                if not task.done():
                    task.cancel()
            if getattr(self, "_session", None) is not None:
                self._session.cancel()
            self._step_loop()
            self.loop.close()
        return recs

    def _root_of(self, s):
        """find_EventDataset on the stream's query: index of the dataset object found (0: failure)."""
        from func_adl import find_EventDataset
        try:
            node = find_EventDataset(s.query_ast)
            obj = getattr(node, "_eds_object", None)
            return getattr(obj, "idx", 0) if obj is not None else 0
        except Exception:
            return 0

    def _mix(self):
        """queries with two roots / no root must be rejected by find_EventDataset"""
        from func_adl import find_EventDataset
        out = []
        rooted = [s for s in self.streams if self._root_of(s) != 0]      # (streams over a bare name have no dataset)
        if len(rooted) >= 1:
            a, b = rooted[0], rooted[-1]
            two = ast.Call(func=ast.Name(id="Zip", ctx=ast.Load()), args=[a.query_ast, b.query_ast], keywords=[])
            nested = ast.Call(func=ast.Name(id="Select", ctx=ast.Load()),
                              args=[a.query_ast, ast.Lambda(args=ast.arguments(posonlyargs=[], args=[ast.arg(arg="e")],
                                    kwonlyargs=[], kw_defaults=[], defaults=[]), body=b.query_ast)], keywords=[])
            none = ast.parse("Select(seq, lambda e: e.x)").body[0].value
            # the second root inside a keyword argument / inside a keyword argument within a lambda
            kw = ast.Call(func=ast.Name(id="Zip", ctx=ast.Load()), args=[a.query_ast],
                          keywords=[ast.keyword(arg="other", value=b.query_ast)])
            kwl = ast.Call(func=ast.Name(id="Select", ctx=ast.Load()),
                           args=[a.query_ast, ast.Lambda(args=ast.arguments(posonlyargs=[], args=[ast.arg(arg="e")],
                                 kwonlyargs=[], kw_defaults=[], defaults=[]),
                                 body=ast.Call(func=ast.Name(id="Zip", ctx=ast.Load()), args=[ast.Name(id="e", ctx=ast.Load())],
                                               keywords=[ast.keyword(arg="other", value=b.query_ast)]))], keywords=[])
            for kind, q in (("two", two), ("nested", nested), ("none", none), ("keyword", kw), ("keyword-in-lambda", kwl)):
                try:
                    find_EventDataset(q)
                    out.append({"kind": kind, "raised": False})
                except Exception:
                    out.append({"kind": kind, "raised": True})
        return out

    def _do(self, a, step):
        act = a["act"]
        # supply rotates str / ast / callable with the step; every 4th history hands over (shared) ast objects throughout
        how = 1 if self.tid % 4 == 0 else (self.tid + step) % 3
        if act == "NewDataset":
            self.nds += 1
            typed = a["op"] == "Evt"
            self.streams.append(self.DS(self.nds, typed))
            self.shadow.append(self.DS(-self.nds, typed, shadow=True))
            return
        if act == "NewNameRoot":
            from func_adl import ObjectStream
            self.streams.append(ObjectStream(ast.Name(id="e", ctx=ast.Load())))
            self.shadow.append(ObjectStream(ast.Name(id="e", ctx=ast.Load())))
            return
        if act == "NewSkim":
            # a dataset defined by a query on another dataset: the producing query is the root node's argument
            self.nds += 1
            for lst, idx, shadow in ((self.streams, self.nds, False), (self.shadow, -self.nds, True)):
                d = self.DS(idx, False, shadow=shadow)
                d.query_ast.args.append(lst[a["s"] - 1].query_ast)
                lst.append(d)
            return
        if act in ("ExecReturn", "ExecRaise"):
            task, fut = self.tasks[a["c"]]
            if act == "ExecReturn":
                fut.set_result(a["v"])
            else:
                fut.set_exception(exc_for(a["c"]))
            self._step_loop()
            return
        s = self.streams[a["s"] - 1]
        sh = self.shadow[a["s"] - 1]
        if act == "Derive":
            self.streams.append(_derive(s, a["op"], a["t"], how))
            self.shadow.append(getattr(sh, a["op"])(codec.src(a["t"])))
        elif act == "DeriveCross":
            # the query of another dataset's stream becomes the body of the lambda: a second dataset node in the query,
            # off the source chain
            def cross(st, other):
                lam = ast.Lambda(args=ast.arguments(posonlyargs=[], args=[ast.arg(arg="e")], kwonlyargs=[],
                                                    kw_defaults=[], defaults=[]), body=other.query_ast)
                return st.Select(lam)
            self.streams.append(cross(s, self.streams[a["c"] - 1]))
            self.shadow.append(cross(sh, self.shadow[a["c"] - 1]))
        elif act == "MetaData":
            d = ast.literal_eval(codec.src(a["t"]))
            self.streams.append(s.MetaData(d))
            self.shadow.append(sh.MetaData(d))
        elif act == "QMetaData":
            self.streams.append(s.QMetaData({a["k"]: _pyval(a["v"])}))
            self.shadow.append(sh)
        elif act == "QMetaData2":
            self.streams.append(s.QMetaData({"a": _pyval(a["v"]), "b": _pyval(a["c"])}))
            self.shadow.append(sh)
        elif act == "Terminal":
            self.streams.append(s.AsAwkwardArray(["c"]))
            self.shadow.append(sh.AsAwkwardArray(["c"]))
        elif act == "ValueFail":
            # value() on a stream without a dataset at its root: must be rejected (any exception); the streams are
            # re-inspected afterwards like after every step
            try:
                s.value()
                raise RuntimeError("value() on a stream without a dataset did not raise")
            except RuntimeError:
                raise
            except Exception:
                pass
        elif act == "ValueSync":
            # the synchronous wrapper value(): the dataset's executor answers at once
            self.sync_reply = (a["op"], a["v"], a["c"])
            kw = {}
            if a["title"] != "":
                kw["title"] = a["title"]
            try:
                if self.tid % 2 == 1:
                    # every other history: all the answered-at-once calls are awaited, one after the other, by ONE
                    # long-lived coroutine (one context: what a call leaves behind meets the next call)
                    kind, r = self._session_call(s, kw)
                    if kind == "exc":
                        raise r
                else:
                    r = s.value(**kw)
                self.sync_done.append({"c": a["c"], "kind": "ret", "val": r if isinstance(r, int) else -1})
            except Exception as e:
                self.sync_done.append({"c": a["c"], "kind": "raise" if is_exc_for(e, a["c"]) else "raise-other", "val": 0})
            finally:
                self.sync_reply = None
        elif act == "ValueStart":
            n0 = len(self.execlog)
            kw = {}
            if a["title"] != "":
                kw["title"] = a["title"]
            if a["op"] == "override":
                kw["executor"] = _FalsyExecutor(self._override)
            task = self.loop.create_task(s.value_async(**kw))
            self._step_loop()
            fut = self.execlog[n0]["fut"] if len(self.execlog) > n0 else self.loop.create_future()
            self.tasks[a["c"]] = (task, fut)
        else:
            raise ValueError(act)


def _session_call(self, stream, kw):
    if getattr(self, "_session", None) is None:
        self._requests = asyncio.Queue()

        async def session():
            while True:
                st, k, out = await self._requests.get()
                try:
                    out.append(("ret", await st.value_async(**k)))
                except Exception as e:       # handed back to the step that made the call
                    out.append(("exc", e))
        self._session = self.loop.create_task(session())
    out = []
    self._requests.put_nowait((stream, kw, out))
    self._step_loop()
    if not out:
        return ("exc", RuntimeError("session call did not complete"))
    return out[0]


History._session_call = _session_call


def run_history(job):
    tid, actions = job
    return History(tid, actions).run()


def run_many(histories, procs=16):
    jobs = list(enumerate(histories, start=1))
    if len(jobs) < 200 or procs <= 1:
        out = [run_history(j) for j in jobs]
    else:
        ctx = mp.get_context("fork")
        with ctx.Pool(procs) as pool:
            out = pool.map(run_history, jobs, chunksize=max(20, len(jobs) // (procs * 8)))
    return [r for h in out for r in h]
