"""C13: Python values embedded in a query keep their exact value (spec/Embed.tla)."""

import ast
import json
import logging
import os

import codec
import common
import tlcrun

PLANS = {"quick": {"MaxLen": 2, "MaxDepth": 1}, "thorough": {"MaxLen": 3, "MaxDepth": 2}}


def to_py(v):
    vt = v["vt"]
    if vt == "str":
        return "".join(v["cs"])
    if vt == "int":
        return v["n"]
    if vt == "bigint":
        return int(v["s"])
    if vt == "float":
        return float(v["s"])
    if vt == "bool":
        return bool(v["n"])
    if vt == "none":
        return None
    if vt == "bytes":
        return bytes(int(x) for x in v["cs"])
    if vt == "list":
        return [to_py(x) for x in v["items"]]
    if vt == "tuple":
        return tuple(to_py(x) for x in v["items"])
    if vt == "dict":
        it = v["items"]
        return {to_py(it[i]): to_py(it[i + 1]) for i in range(0, len(it), 2)}
    raise ValueError(vt)


def entries_for(v):
    out = ["metadata", "default", "captured", "captured_global", "captured_modattr", "captured_clsattr"]
    if v["vt"] in ("str", "int"):
        out.append("metadata_key")
    # the value as a member of an Enum class mixed with str / int (an instance of a SUBCLASS of the scalar type)
    if v["vt"] == "str":
        out.append("captured_strenum")
    if v["vt"] == "int":
        out.append("captured_intenum")
    if v["vt"] == "str" or (v["vt"] == "list" and v["items"] and all(x["vt"] == "str" for x in v["items"])):
        out += ["columns_pandas", "columns_awkward", "columns_parquet", "columns_ttree"]
    if v["vt"] in ("str", "bytes", "int", "bigint", "float", "bool", "none"):
        # file and tree names are declared str; whatever scalar is handed over must still arrive as it is
        out += ["filename_parquet", "filename_ttree", "treename"]
    return out


def run(prop, tier):
    logging.disable(logging.WARNING)
    from func_adl import EventDataset
    import embed_callsite
    rep = common.Report(prop, tier)
    plan = PLANS[tier]
    d = tlcrun.fresh_dir(common.outdir(prop, "gen"))
    cfg = os.path.join(d, "gen.cfg")
    tlcrun.write_cfg(cfg, constants=plan, invariants=["Export"])
    out = os.path.join(d, "values.ndjson")
    st = tlcrun.run("GenEmbed", cfg, d, env={"OUT_FILE": out}, workers=8)
    rep.add_tlc(st)
    vals = [json.loads(x) for x in sorted({line.strip() for line in open(out, encoding="utf-8") if line.strip()})]

    class DS(EventDataset):
        def __init__(self, t=None):
            if t is None:
                super().__init__()
            else:
                super().__init__(t)

        async def execute_result_async(self, a, title=None):
            return 0

    recs = []
    for v in vals:
        pv = to_py(v)
        for entry in entries_for(v):
            rec = {"id": len(recs), "entry": entry, "val": v, "lit": codec.T("absent"), "exc": ""}
            try:
                if entry == "metadata":
                    node = DS().MetaData({"k": pv}).query_ast.args[1]
                elif entry == "metadata_key":
                    node = DS().MetaData({pv: 1}).query_ast.args[1]
                elif entry == "columns_pandas":
                    node = DS().AsPandasDF(pv).query_ast.args[1]
                elif entry == "columns_awkward":
                    node = DS().AsAwkwardArray(pv).query_ast.args[1]
                elif entry == "columns_parquet":
                    node = DS().AsParquetFiles("f.parquet", pv).query_ast.args[1]
                elif entry == "columns_ttree":
                    node = DS().AsROOTTTree("f.root", "t", pv).query_ast.args[1]
                elif entry == "filename_parquet":
                    node = DS().AsParquetFiles(pv).query_ast.args[2]
                elif entry == "filename_ttree":
                    node = DS().AsROOTTTree(pv, "t").query_ast.args[3]
                elif entry == "treename":
                    node = DS().AsROOTTTree("f.root", pv).query_ast.args[2]
                elif entry == "default":
                    ns = {"DEFAULT": pv}
                    exec("class Evt:\n    def m(self, a=DEFAULT) -> int: ...\n", ns)
                    node = DS(ns["Evt"]).Select("lambda e: e.m()").query_ast.args[1].body.args[0]
                elif entry == "captured":
                    node = embed_callsite.select_with_captured(DS(), pv).query_ast.args[1].body.args[0]
                elif entry.startswith("captured_"):
                    fn = getattr(embed_callsite, "select_with_" + entry[len("captured_"):])
                    node = fn(DS(), pv).query_ast.args[1].body.args[0]
                else:
                    raise ValueError(entry)
                rec["lit"] = codec.enc(node)
            except Exception as e:
                rec["exc"] = type(e).__name__
                rec["msg"] = str(e)[:120]
            recs.append(rec)
    vrecs = [{k: r[k] for k in ("id", "entry", "val", "lit", "exc")} for r in recs]
    verdicts, vst = common.validate(prop, "embed", "TraceEmbed", vrecs, per_shard=1500)
    rep.add_tlc(vst)
    rep.traces = len(recs)
    rep.evaluations = len(recs)
    counts = {}
    per_entry = {}
    for cid, v in sorted(verdicts.items()):
        r = recs[cid]
        key = v["v"] + (":" + v["clause"] if v["clause"] else "")
        counts[key] = counts.get(key, 0) + 1
        pe = per_entry.setdefault(r["entry"], {"cases": 0, "rejected": 0})
        pe["cases"] += 1
        if v["v"] == "ACCEPT":
            if v["nontrivial"]:
                rep.nontrivial += 1
            if cid % 1201 == 0:
                rep.sample({"entry": r["entry"], "value": repr(to_py(r["val"])),
                            "literal": codec.src(r["lit"]) if not r["exc"] else r["exc"]})
        else:
            pe["rejected"] += 1
            rep.reject(cid, v["clause"], {"property": prop, "entry": r["entry"], "value_repr": repr(to_py(r["val"])),
                                          "value": r["val"],
                                          "observed": (r["exc"] + " " + r.get("msg", "")) if r["exc"] else
                                          (codec.src(r["lit"]) if r["lit"]["k"] not in ("opaque", "malformed", "const")
                                           else codec.dumps(r["lit"])),
                                          "verdict": v})
    rep.extra.update(values=len(vals), verdicts=counts, entry_points=per_entry, bounds=plan)
    rep.exhaustive = True
    rep.rule = ("values = reachable states of spec/GenEmbed.tla: all strings up to MaxLen over the alphabet {' \" \\\\ newline a "
                "( + # e-acute}, ints incl. negative and > 2^64, floats, bools, None, bytes, wrapped in list / tuple / dict to "
                "MaxDepth; each value is handed to every entry point it fits (MetaData value and key, AsPandasDF / "
                "AsAwkwardArray / AsParquetFiles / AsROOTTTree columns, file and tree names, declared default of a typed "
                "method, value captured by a real lambda as closure variable / module global / module attribute / class constant); TLC (TraceEmbed) evaluates the literal found in the "
                "emitted query (LitEval) and compares with the value, or demands ValueError for a non-transportable "
                "value inside a lambda; non-trivial = string with a quote / backslash / newline / non-ASCII character, "
                "or a container, or a demanded refusal")
    rep.assumptions = ["finite floats only (the property excludes inf/nan)"]
    return rep.finish()
