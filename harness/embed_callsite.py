"""Call sites with a real lambda capturing a value (C13 'captured*' entry points): closure variable, module global,
attribute of a module, constant of a class."""
import enum
import types

G = None
cfgmod = types.ModuleType("c13_cfgmod")


class Cfg:
    V = None


def select_with_captured(ds, x):
    return ds.Select(lambda e: e.f(x))


def select_with_global(ds, x):
    global G
    G = x
    return ds.Select(lambda e: e.f(G))


def select_with_modattr(ds, x):
    cfgmod.V = x
    return ds.Select(lambda e: e.f(cfgmod.V))


def select_with_clsattr(ds, x):
    Cfg.V = x
    return ds.Select(lambda e: e.f(Cfg.V))


def select_with_strenum(ds, x):
    """the captured value is a member of a (str, Enum) class whose value is the string x: it IS that string"""
    member = enum.Enum("Tag", {"M": x}, type=str).M
    return ds.Select(lambda e: e.f(member))


def select_with_intenum(ds, x):
    member = enum.IntEnum("Num", {"M": x}).M
    return ds.Select(lambda e: e.f(member))
