"""Call site with a real lambda capturing a variable (C13 'captured' entry point)."""


def select_with_captured(ds, x):
    return ds.Select(lambda e: e.f(x))
