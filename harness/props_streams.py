"""C11 / C12 / C16 (and the structural part of C01): histories of spec/Streams.tla.

design check : TLC model-checks Streams.tla (heap model implements the abstract design)
spec -> code : TLC exports every maximal history (BFS) and random deeper ones (-simulate)
code -> spec : projected state after every step validated by TraceStreams.tla
"""

import json
import os

import codec
import common
import replay_streams
import tlcrun

OWNER = {
    "Imm": "C11",
    "Wrap": "C01", "NewType": "C08",
    "Qmd": "C16", "QmdHash": "C16",
    "ExecWhileBuilding": "C12", "OneCall": "C12", "Routed": "C12", "CleanAst": "C12", "Title": "C12",
    "Deliver": "C12", "Raised": "C12", "FindRoot": "C12", "MixNotRejected": "C12",
}
ALSO = {"C11": {"Raised"}, "C16": {"Raised"}, "C12": set()}

CONSTS = {"MaxStreams": 9, "NDatasets": 2, "MaxPending": 3, "CleanInPlace": "FALSE", "QmdReplace": "FALSE",
          "ChainOnly": "FALSE"}

PLANS = {
    # focus, exhaustive history length, cap on exhaustive histories, (#random walks, depth), MC bound
    # (thorough caps: the recorded projected state of 120000 + 60000 histories did not fit in memory - 27 GB - since the
    #  records carry roots, mixes and shadow hashes; 50000 + 25000 exhaustive-family histories and 15000 walks do)
    "C11": {"quick": ("imm", 4, 6000, (1500, 8), 5), "thorough": ("imm", 4, 50000, (15000, 10), 5)},
    "C12": {"quick": ("exec", 4, 6000, (1500, 9), 5), "thorough": ("exec", 4, 50000, (15000, 12), 5)},
    "C16": {"quick": ("qmd", 3, 6000, (1500, 8), 4), "thorough": ("qmd", 4, 50000, (15000, 10), 5)},
}


def model_check(prop, focus, steps):
    d = tlcrun.fresh_dir(common.outdir(prop, "mc"))
    cfg = os.path.join(d, "mc.cfg")
    consts = dict(CONSTS)
    consts.update({"MaxSteps": steps, "Focus": '"%s"' % focus, "MaxStreams": steps})
    tlcrun.write_cfg(cfg, constants=consts,
                     invariants=["Immutable", "QmdOK", "RoutedAndClean", "OutcomeOnce", "DeliveredWasStarted", "TypeOK"],
                     properties=["ImmutableStep", "NoExecWhileBuilding", "ExactlyOneCall"], view="NoHistView")
    return tlcrun.run("Streams", cfg, d, workers=16, coverage=False)


def gen_histories(prop, name, focus, steps, simulate=None, extra_args=(), chain_only=False):
    d = tlcrun.fresh_dir(common.outdir(prop, "gen_" + name))
    cfg = os.path.join(d, "gen.cfg")
    consts = dict(CONSTS)
    consts.update({"MaxSteps": steps, "Focus": '"%s"' % focus})
    if chain_only:
        consts.update({"ChainOnly": "TRUE", "NDatasets": 1, "MaxPending": 2})
    tlcrun.write_cfg(cfg, constants=consts, invariants=["Export"])
    out = os.path.join(d, "hist.ndjson")
    st = tlcrun.run("GenStreams", cfg, d, env={"OUT_FILE": out}, workers=16, simulate=simulate,
                    extra_args=extra_args)
    hs = []
    seen = set()
    if os.path.exists(out):
        for line in open(out):
            line = line.strip()
            if line and line not in seen:
                seen.add(line)
                hs.append(json.loads(line))
    hs.sort(key=codec.dumps)
    return hs, st


def hist_features(h):
    """which kinds of steps a history has and in which order classes of steps first occur"""
    feats = []
    for a in h:
        f = a["act"]
        if f == "Derive":
            f += ":" + a["op"] + (":kw" if "'p':['a']" in str(a["t"]).replace(" ", "").replace('"', "'") else "")
        elif f == "MetaData":
            f += ":empty" if not a["t"]["a"] else ":nonempty"
        elif f == "ValueStart":
            f += ":" + a["op"]
        if f not in feats:
            feats.append(f)
    return tuple(feats)


def interesting(prop, h):
    acts = [a["act"] for a in h]
    if prop == "C11":   # a derive or execute after which older streams are re-inspected
        return len(h) >= 3
    if prop == "C12":
        return "ValueStart" in acts or "ValueSync" in acts
    if prop == "C16":
        return "QMetaData" in acts or "QMetaData2" in acts
    return True


def run(prop, tier):
    rep = common.Report(prop, tier)
    focus, steps, cap, (nrand, rdepth), mcsteps = PLANS[prop][tier]
    st = model_check(prop, "all" if tier == "thorough" else focus, mcsteps)
    rep.add_tlc(st)
    rep.extra["design_check"] = {"module": "Streams", "MaxSteps": mcsteps, "states": st["distinct"],
                                 "invariants": ["Immutable", "QmdOK", "RoutedAndClean", "OutcomeOnce",
                                                "DeliveredWasStarted", "ImmutableStep", "NoExecWhileBuilding",
                                                "ExactlyOneCall"]}
    hs, st = gen_histories(prop, "bfs", focus, steps)
    rep.add_tlc(st)
    total = len(hs)
    hs = [h for h in hs if interesting(prop, h)]
    hs = common.subsample_stratified(hs, cap, salt=prop + "bfs", key=hist_features)
    fam = {"bfs": {"steps": steps, "generated": total, "replayed": len(hs), "exhaustive": len(hs) == total}}
    # fluent chains (every derivation applies to the newest stream; executions at any point), two steps deeper
    ch, st = gen_histories(prop, "chain", focus, steps + 1, chain_only=True)
    rep.add_tlc(st)
    ctotal = len(ch)
    ch = common.subsample_stratified([h for h in ch if interesting(prop, h)], cap // 2, salt=prop + "chain",
                                     key=hist_features)
    fam["chains"] = {"steps": steps + 1, "generated": ctotal, "replayed": len(ch), "exhaustive": len(ch) == ctotal}
    hs = hs + ch
    if prop == "C16":
        # one long derivation path: Select and QMetaData steps on one key (set, changed, set back on different nodes)
        psteps = 7 if tier == "quick" else 9
        ph, st = gen_histories(prop, "path", "qmdpath", psteps, chain_only=True)
        rep.add_tlc(st)
        fam["paths"] = {"steps": psteps, "generated": len(ph), "replayed": len(ph), "exhaustive": True}
        hs = hs + ph
    if prop == "C12":
        # two datasets, the query of one embedded in a lambda of a chain on the other (a dataset node off the source chain)
        xsteps = 7 if tier == "quick" else 9
        xh, st = gen_histories(prop, "cross", "cross", xsteps)
        rep.add_tlc(st)
        xh = [h for h in xh if any(a["act"] == "DeriveCross" for a in h) and any(a["act"] == "ValueSync" for a in h)]
        fam["cross"] = {"steps": xsteps, "generated": len(xh), "replayed": len(xh), "exhaustive": True}
        hs = hs + xh
    if nrand:
        rs, st = gen_histories(prop, "rand", focus, rdepth, simulate=f"num={max(1, nrand // 160)}",
                               extra_args=["-depth", str(rdepth + 1), "-seed", str(common.seed() + 3)])
        rep.add_tlc(st)
        rs = common.subsample_stratified([h for h in rs if interesting(prop, h)], nrand, salt=prop + "rand",
                                         key=hist_features)
        fam["random"] = {"steps": rdepth, "generated": len(rs), "replayed": len(rs), "exhaustive": False}
        hs = hs + rs
    recs = replay_streams.run_many(hs)
    verdicts, vst = common.validate(
        prop, "streams", "TraceStreams", recs, group=lambda r: r["tid"],
        rec_id=lambda r: (r["tid"], r["step"]), verdict_id=lambda v: (v["tid"], v["step"]), per_shard=1500)
    rep.add_tlc(vst)
    rep.traces = len(hs)
    rep.evaluations = len(recs)
    counts = {}
    other = {}
    bad_hist = set()
    byid = {(r["tid"], r["step"]): r for r in recs}
    for key, v in sorted(verdicts.items()):
        if v["ok"]:
            counts["ACCEPT"] = counts.get("ACCEPT", 0) + 1
            continue
        for cl in v["clauses"]:
            counts["REJECT:" + cl] = counts.get("REJECT:" + cl, 0) + 1
            owner = OWNER.get(cl, prop)
            if owner == prop or cl in ALSO.get(prop, ()):
                if key[0] not in bad_hist:
                    bad_hist.add(key[0])
                    r = byid[key]
                    replay = {"property": prop, "kind": "history", "history": hs[key[0] - 1], "failed_step": key[1],
                              "clauses": v["clauses"], "observed": {k: r[k] for k in
                                                                    ("views", "types", "lookups", "newexec", "done", "exc")}}
                    rep.reject(key, cl, replay)
            else:
                other[owner + ":" + cl] = other.get(owner + ":" + cl, 0) + 1
    if prop == "C11":
        # wild traces: the streams the repository's own tests build, re-inspected after every operation
        import wild
        wrecs = []
        for r in wild.records(prop):
            if r["pass"] == "imm" and r["views0"]:
                wrecs.append({"id": len(wrecs), "pass": "imm", "views0": r["views0"], "views1": r["views1"],
                              "types0": r["types0"], "types1": r["types1"], "op": r["op"], "test": r.get("test", "")})
        wv, wst = common.validate(prop, "wild", "TracePass", [{k: v for k, v in w.items() if k != "test"} for w in wrecs])
        rep.add_tlc(wst)
        nbad = 0
        for wid, v in sorted(wv.items()):
            if v["v"] == "REJECT":
                nbad += 1
                w = wrecs[wid]
                rep.reject(("wild", wid), "Imm", {"property": prop, "kind": "wild trace", "test": w["test"], "op": w["op"],
                                                  "stream": v["d"], "created_as": codec.src(w["views0"][v["d"] - 1]),
                                                  "now": codec.src(w["views1"][v["d"] - 1])})
        fam["wild (repository tests under the recorder)"] = {"records": len(wrecs), "rejected": nbad,
                                                             "suite": wild.suite_summary()}
    rep.nontrivial = len(hs) - len(bad_hist)
    for h in hs[:3] + hs[-3:]:
        rep.sample([{k: (codec.src(v) if k == "t" and v["k"] != "absent" else v) for k, v in a.items()
                     if v not in ("", 0) and not (k == "t" and v["k"] == "absent")} for a in h])
    # vacuity guard: how often each action of the specification occurs in the replayed histories
    acts = {}
    for h in hs:
        for a in h:
            k = a["act"] + (":" + a["op"] if a["act"] in ("Derive", "ValueStart", "ValueSync") and a["op"] else "")
            acts[k] = acts.get(k, 0) + 1
    rep.extra["action_counts_in_replayed_histories"] = acts
    rep.extra.update(families=fam, verdicts=counts, rejections_owned_by_other_properties=other)
    rep.rule = ("histories = behaviours of spec/Streams.tla (TLC BFS: every maximal history of the stated length for "
                "the property's action focus; plus seeded -simulate walks); each is replayed on real EventDataset / "
                "ObjectStream objects (lambdas supplied as str / re-used ast object / callable in rotation; executors "
                "await harness-controlled futures completed in TLC's order) and the projected state after EVERY step "
                "(all views, types, lookups, executor calls, deliveries) is validated by TLC (TraceStreams.tla); "
                "non-trivial = history contains the property's trigger (derive/execute after >= 2 earlier steps; a "
                "ValueStart; a QMetaData) and was accepted at every step")
    rep.exhaustive = fam["bfs"]["exhaustive"]
    rep.assumptions = ["lambda pool of three pass-through lambdas, two metadata dictionaries, 2 keys x 2 values",
                       "<= 2 dataset objects, <= 3 executions in flight"]
    return rep.finish()
