"""Python ast <-> uniform TLA+ term records.

term == [k: STRING, s: STRING, n: Int, p: Seq(STRING), a: Seq(term)]

The same JSON is read by TLC (community module Json) and by this harness.
Kinds (see spec/Terms.tla):
  name(s)  int(n)  bigint(s)  bool(n)  str(s)  none  float(s)  const(s)   leaves
  attr(s; value)  call(n=#positional, p=keyword names; func, args.., kwvalues..)
  lam(p=params, n=#defaults; body, defaults..)   binop(s; l, r)  unop(s; x)
  boolop(s; values..)  cmp(p=ops; left, comparators..)  ifexp(test, body, orelse)
  tuple / list (elts..)   dict (k1, v1, k2, v2, ..)   sub(value, slice)
  slice(lower, upper, step)  absent   comp(s=list|gen|set, p=targets, n=#generators ...)
  opaque(s=dump)
"""

import ast
import json

BINOPS = {
    ast.Add: "+", ast.Sub: "-", ast.Mult: "*", ast.Div: "/", ast.FloorDiv: "//",
    ast.Mod: "%", ast.Pow: "**", ast.LShift: "<<", ast.RShift: ">>", ast.BitOr: "|",
    ast.BitXor: "^", ast.BitAnd: "&", ast.MatMult: "@",
}
UNOPS = {ast.USub: "-", ast.UAdd: "+", ast.Not: "not", ast.Invert: "~"}
CMPOPS = {
    ast.Eq: "==", ast.NotEq: "!=", ast.Lt: "<", ast.LtE: "<=", ast.Gt: ">", ast.GtE: ">=",
    ast.Is: "is", ast.IsNot: "is not", ast.In: "in", ast.NotIn: "not in",
}
BINOPS_R = {v: k for k, v in BINOPS.items()}
UNOPS_R = {v: k for k, v in UNOPS.items()}
CMPOPS_R = {v: k for k, v in CMPOPS.items()}

INT_MAX = 2 ** 31 - 1


def T(k, s="", n=0, p=(), a=()):
    return {"k": k, "s": s, "n": n, "p": list(p), "a": list(a)}


def const_term(v):
    if v is True or v is False:
        return T("bool", n=1 if v else 0)
    if v is None:
        return T("none")
    if isinstance(v, int):
        if -INT_MAX <= v <= INT_MAX:
            return T("int", n=v)
        return T("bigint", s=str(v))
    if isinstance(v, str):
        if any(0xD800 <= ord(ch) <= 0xDFFF for ch in v):
            # lone surrogates would be written with the same JSON escape as the real character
            return T("str", s="<lone-surrogates>" + v.encode("utf-16-le", "surrogatepass").hex())
        return T("str", s=v)
    if isinstance(v, float):
        return T("float", s=repr(v))
    if v is Ellipsis:
        return T("const", s="Ellipsis")
    if isinstance(v, bytes):
        return T("bytes", p=[str(b) for b in v])
    if isinstance(v, complex):
        return T("const", s=type(v).__name__ + ":" + repr(v))
    if isinstance(v, type):
        return T("const", s="class:" + v.__name__)
    return T("const", s="obj:" + type(v).__name__)


def enc(node):
    """Encode an ast node as a term (total: unknown forms become opaque)."""
    if node is None:
        return T("absent")
    if isinstance(node, ast.Module):
        if len(node.body) == 1 and isinstance(node.body[0], ast.Expr):
            return enc(node.body[0].value)
        return T("opaque", s=ast.dump(node))
    if isinstance(node, ast.Expression):
        return enc(node.body)
    if isinstance(node, ast.Name):
        return T("name", s=node.id)
    if isinstance(node, ast.Constant):
        return const_term(node.value)
    if isinstance(node, ast.Attribute):
        return T("attr", s=node.attr, a=[enc(node.value)])
    if isinstance(node, ast.Call):
        kws = node.keywords
        if any(k.arg is None for k in kws):
            return T("opaque", s=ast.dump(node))
        return T(
            "call",
            n=len(node.args),
            p=[k.arg for k in kws],
            a=[enc(node.func)] + [enc(x) for x in node.args] + [enc(k.value) for k in kws],
        )
    if isinstance(node, ast.Lambda):
        ar = node.args
        if ar.posonlyargs or ar.vararg or ar.kwonlyargs or ar.kwarg:
            # parameter lists beyond plain parameters: shape in s (spec/Terms.tla LamSig), all bound names in p
            if len(ar.posonlyargs) > 2 or len(ar.kwonlyargs) > 2:
                return T("opaque", s=ast.dump(node))
            sig = f"po{len(ar.posonlyargs)}ko{len(ar.kwonlyargs)}va{1 if ar.vararg else 0}kw{1 if ar.kwarg else 0}"
            names = ([x.arg for x in ar.posonlyargs] + [x.arg for x in ar.args] + ([ar.vararg.arg] if ar.vararg else [])
                     + [x.arg for x in ar.kwonlyargs] + ([ar.kwarg.arg] if ar.kwarg else []))
            return T("lam", s=sig, n=len(ar.defaults), p=names,
                     a=[enc(node.body)] + [enc(d) for d in ar.defaults]
                     + [T("absent") if d is None else enc(d) for d in ar.kw_defaults])
        return T(
            "lam",
            n=len(ar.defaults),
            p=[x.arg for x in ar.args],
            a=[enc(node.body)] + [enc(d) for d in ar.defaults],
        )
    if isinstance(node, ast.BinOp):
        return T("binop", s=BINOPS[type(node.op)], a=[enc(node.left), enc(node.right)])
    if isinstance(node, ast.UnaryOp):
        return T("unop", s=UNOPS[type(node.op)], a=[enc(node.operand)])
    if isinstance(node, ast.BoolOp):
        return T("boolop", s="and" if isinstance(node.op, ast.And) else "or",
                 a=[enc(v) for v in node.values])
    if isinstance(node, ast.Compare):
        return T("cmp", p=[CMPOPS[type(o)] for o in node.ops],
                 a=[enc(node.left)] + [enc(c) for c in node.comparators])
    if isinstance(node, ast.IfExp):
        return T("ifexp", a=[enc(node.test), enc(node.body), enc(node.orelse)])
    if isinstance(node, ast.Tuple):
        return T("tuple", a=[enc(e) for e in node.elts])
    if isinstance(node, ast.List):
        return T("list", a=[enc(e) for e in node.elts])
    if isinstance(node, ast.Dict):
        if any(k is None for k in node.keys):
            return T("opaque", s=ast.dump(node))
        out = []
        for k, v in zip(node.keys, node.values):
            out += [enc(k), enc(v)]
        return T("dict", a=out)
    if isinstance(node, ast.Subscript):
        return T("sub", a=[enc(node.value), enc(node.slice)])
    if isinstance(node, ast.Slice):
        return T("slice", a=[enc(node.lower), enc(node.upper), enc(node.step)])
    if isinstance(node, (ast.ListComp, ast.GeneratorExp, ast.SetComp)):
        kind = {ast.ListComp: "list", ast.GeneratorExp: "gen", ast.SetComp: "set"}[type(node)]
        gens = node.generators
        if len(gens) == 1 and isinstance(gens[0].target, ast.Name) and not gens[0].is_async:
            g = gens[0]
            return T("comp", s=kind, p=[g.target.id],
                     a=[enc(node.elt), enc(g.iter)] + [enc(i) for i in g.ifs])
        return T("opaque", s=ast.dump(node))
    if isinstance(node, ast.Starred):
        return T("opaque", s=ast.dump(node))
    # A non-AST object sitting where a node should be (malformed tree)
    if not isinstance(node, ast.AST):
        return T("malformed", s=type(node).__name__ + ":" + repr(node)[:60])
    return T("opaque", s=ast.dump(node))


def dec(t):
    """Decode a term into a fresh ast (only kinds the generators produce)."""
    k = t["k"]
    a = t["a"]
    if k == "name":
        return ast.Name(id=t["s"], ctx=ast.Load())
    if k == "int":
        return ast.Constant(value=int(t["n"]))
    if k == "bigint":
        return ast.Constant(value=int(t["s"]))
    if k == "bool":
        return ast.Constant(value=bool(t["n"]))
    if k == "str":
        return ast.Constant(value=t["s"])
    if k == "none":
        return ast.Constant(value=None)
    if k == "float":
        return ast.Constant(value=float(t["s"]))
    if k == "bytes":
        return ast.Constant(value=bytes(int(x) for x in t["p"]))
    if k == "const":
        if t["s"] == "Ellipsis":
            return ast.Constant(value=Ellipsis)
        if t["s"].startswith("bytes:"):
            return ast.Constant(value=eval(t["s"][6:]))
        raise ValueError("cannot decode const " + t["s"])
    if k == "absent":
        return None
    if k == "attr":
        return ast.Attribute(value=dec(a[0]), attr=t["s"], ctx=ast.Load())
    if k == "call":
        n = t["n"]
        return ast.Call(
            func=dec(a[0]),
            args=[dec(x) for x in a[1:1 + n]],
            keywords=[ast.keyword(arg=kw, value=dec(v)) for kw, v in zip(t["p"], a[1 + n:])],
        )
    if k == "lam" and t["s"]:
        import re as _re
        m = _re.fullmatch(r"po(\d)ko(\d)va(\d)kw(\d)", t["s"])
        po, ko, va, kw = (int(x) for x in m.groups())
        names = list(t["p"])
        nreg = len(names) - po - ko - va - kw
        nd = t["n"]
        i = 0
        posonly = [ast.arg(arg=x) for x in names[i:i + po]]; i += po
        reg = [ast.arg(arg=x) for x in names[i:i + nreg]]; i += nreg
        vararg = ast.arg(arg=names[i]) if va else None; i += va
        kwonly = [ast.arg(arg=x) for x in names[i:i + ko]]; i += ko
        kwarg = ast.arg(arg=names[i]) if kw else None
        return ast.Lambda(
            args=ast.arguments(
                posonlyargs=posonly, args=reg, vararg=vararg, kwonlyargs=kwonly,
                kw_defaults=[None if d["k"] == "absent" else dec(d) for d in a[1 + nd:]],
                kwarg=kwarg, defaults=[dec(d) for d in a[1:1 + nd]],
            ),
            body=dec(a[0]),
        )
    if k == "lam":
        return ast.Lambda(
            args=ast.arguments(
                posonlyargs=[], args=[ast.arg(arg=x) for x in t["p"]], kwonlyargs=[],
                kw_defaults=[], defaults=[dec(d) for d in a[1:]],
            ),
            body=dec(a[0]),
        )
    if k == "binop":
        return ast.BinOp(left=dec(a[0]), op=BINOPS_R[t["s"]](), right=dec(a[1]))
    if k == "unop":
        return ast.UnaryOp(op=UNOPS_R[t["s"]](), operand=dec(a[0]))
    if k == "boolop":
        return ast.BoolOp(op=ast.And() if t["s"] == "and" else ast.Or(), values=[dec(x) for x in a])
    if k == "cmp":
        return ast.Compare(left=dec(a[0]), ops=[CMPOPS_R[o]() for o in t["p"]],
                           comparators=[dec(x) for x in a[1:]])
    if k == "ifexp":
        return ast.IfExp(test=dec(a[0]), body=dec(a[1]), orelse=dec(a[2]))
    if k == "tuple":
        return ast.Tuple(elts=[dec(x) for x in a], ctx=ast.Load())
    if k == "list":
        return ast.List(elts=[dec(x) for x in a], ctx=ast.Load())
    if k == "dict":
        return ast.Dict(keys=[dec(x) for x in a[0::2]], values=[dec(x) for x in a[1::2]])
    if k == "sub":
        return ast.Subscript(value=dec(a[0]), slice=dec(a[1]), ctx=ast.Load())
    if k == "slice":
        return ast.Slice(lower=dec(a[0]), upper=dec(a[1]), step=dec(a[2]))
    if k == "comp":
        cls = {"list": ast.ListComp, "gen": ast.GeneratorExp, "set": ast.SetComp}[t["s"]]
        return cls(
            elt=dec(a[0]),
            generators=[ast.comprehension(target=ast.Name(id=t["p"][0], ctx=ast.Store()),
                                          iter=dec(a[1]), ifs=[dec(x) for x in a[2:]], is_async=0)],
        )
    raise ValueError("cannot decode kind " + k)


def dec_shared(t, memo=None, names=False):
    """Decode with structure sharing: structurally equal sub-terms become THE SAME ast object (a DAG, as
    func_adl itself produces when a substituted argument is used twice).  Leaves that carry a context
    (names) and lambda argument lists are not shared."""
    if memo is None:
        memo = {}
    key = dumps(t)
    if key in memo:
        return memo[key]
    if not t["a"]:
        if names and t["k"] == "name":
            # also the function NAMES of calls are one object where they are equal (what substituting a function name
            # for a parameter that is called twice produces)
            memo[key] = dec(t)
            return memo[key]
        return dec(t)
    node = dec(t)
    # rebuild children through the memo so that equal children are one object
    if isinstance(node, ast.Call):
        n = t["n"]
        node.func = dec_shared(t["a"][0], memo, names)
        node.args = [dec_shared(x, memo, names) for x in t["a"][1:1 + n]]
        node.keywords = [ast.keyword(arg=kw, value=dec_shared(v, memo, names)) for kw, v in zip(t["p"], t["a"][1 + n:])]
    elif isinstance(node, ast.Attribute):
        node.value = dec_shared(t["a"][0], memo, names)
    elif isinstance(node, ast.Lambda):
        node.body = dec_shared(t["a"][0], memo, names)
    elif isinstance(node, ast.BinOp):
        node.left, node.right = dec_shared(t["a"][0], memo, names), dec_shared(t["a"][1], memo, names)
    elif isinstance(node, (ast.Tuple, ast.List)):
        node.elts = [dec_shared(x, memo, names) for x in t["a"]]
    elif isinstance(node, ast.Compare):
        node.left = dec_shared(t["a"][0], memo, names)
        node.comparators = [dec_shared(x, memo, names) for x in t["a"][1:]]
    elif isinstance(node, ast.Subscript):
        node.value = dec_shared(t["a"][0], memo, names)
    memo[key] = node
    return node


def src(t):
    """Python source text of a term (for reports; a term with an opaque part is shown as its record)."""
    try:
        return ast.unparse(ast.fix_missing_locations(ast.Expression(body=dec(t))))
    except ValueError:
        return "<term " + dumps(t)[:400] + ">"


def dumps(o):
    return json.dumps(o, separators=(",", ":"), ensure_ascii=True)


def load_ndjson(path):
    out = []
    with open(path) as f:
        for line in f:
            line = line.strip()
            if line:
                out.append(json.loads(line))
    return out


def write_ndjson(path, rows):
    with open(path, "w") as f:
        for r in rows:
            f.write(dumps(r))
            f.write("\n")
