"""C01: a fluent query means what the user's Python chain computes (end to end)."""

import ast
import importlib.util
import logging
import os
import sys

import codec
import common
import pyref
import tlcrun

PLANS = {"quick": [("e2e3", "e2e", 3, 4500), ("e2et4", "e2et", 4, 1500), ("e2eb4", "e2eb", 4, 1500), ("e2el3", "e2el", 3, None)],
         # (budget 4 of the full family has > 15M derivation states: seeded random walks instead)
         "thorough": [("e2e3", "e2e", 3, 60000), ("e2eR5", "e2e", 5, 30000, 40000), ("e2et5", "e2et", 5, 20000),
                      ("e2eb4", "e2eb", 4, 20000), ("e2el3", "e2el", 3, None), ("e2el4", "e2el", 4, 30000)]}
OPS = ("Select", "Where", "SelectMany")

TYPED_SOURCE = '''
from typing import Iterable


class Trk:
    def pt(self, scale: int = 1) -> int: ...
    def q(self) -> int: ...


class Jet:
    def pt(self, a: int = 1, b: int = 2, c: int = 3) -> int: ...
    def eta(self, a: int, b: int = 5) -> int: ...
    def trks(self) -> Iterable[Trk]: ...


class Evt:
    def met(self, a: int = 4, b: int = 6) -> int: ...
    def n(self) -> int: ...
    def jets(self) -> Iterable[Jet]: ...
    def trks(self) -> Iterable[Trk]: ...
'''


def chain_steps_m(t):
    """ds.Op(lam).Op(lam) ... -> [(op, lam)] or None"""
    steps = []
    while t["k"] == "call" and t["a"][0]["k"] == "attr" and t["a"][0]["s"] in OPS and t["n"] == 1 \
            and t["a"][1]["k"] == "lam":
        steps.append((t["a"][0]["s"], t["a"][1]))
        t = t["a"][0]["a"][0]
    if t["k"] == "name" and t["s"] == "ds" and steps:
        return list(reversed(steps))
    return None


def _template(a, b, holes):
    """terms a and b are equal up to integer constants -> a with the differing constants replaced by names c<k>; else None"""
    if a["k"] != b["k"] or a["s"] != b["s"] or a["p"] != b["p"] or len(a["a"]) != len(b["a"]):
        return None
    if a["k"] == "int":
        if a["n"] == b["n"]:
            return a
        holes.append((a["n"], b["n"]))
        return codec.T("name", s=f"c{len(holes) - 1}")
    if a["n"] != b["n"]:
        return None
    kids = []
    for x, y in zip(a["a"], b["a"]):
        k = _template(x, y, holes)
        if k is None:
            return None
        kids.append(k)
    return dict(a, a=kids)


def render_chain(steps):
    """source lines building stream s from ds; two consecutive stages that differ only in integer constants are written
    as ONE lambda expression evaluated in a loop over the constants (the same code object, different captured values)"""
    lines = ["    s = ds"]
    i = 0
    while i < len(steps):
        op, lam = steps[i]
        if i + 1 < len(steps) and steps[i + 1][0] == op:
            holes = []
            tpl = _template(lam, steps[i + 1][1], holes)
            if tpl is not None and holes:
                names = ", ".join(f"c{k}" for k in range(len(holes)))
                firsts = ", ".join(str(h[0]) for h in holes) + ("," if len(holes) == 1 else "")
                seconds = ", ".join(str(h[1]) for h in holes) + ("," if len(holes) == 1 else "")
                target = names + ("," if len(holes) == 1 else "")
                lines.append(f"    for {target} in (({firsts}), ({seconds})):")
                lines.append(f"        s = s.{op}({codec.src(tpl)})")
                i += 2
                continue
        lines.append(f"    s = s.{op}({codec.src(lam)})")
        i += 1
    lines.append("    return s")
    return "\n".join(lines)


_REPLAY_ONE = None


def _call_replay_one(i):
    return _REPLAY_ONE(i)


def mentions(t, name):
    return (t["k"] == "name" and t["s"] == name) or any(mentions(c, name) for c in t["a"])


def _fetch_family(arg):
    prop, entry, workers = arg
    (name, fam, budget, keep) = entry[:4]
    if len(entry) > 4:
        got, st = common.gen_programs(prop, name, fam, budget, simulate=f"num={max(1, entry[4] // 16)}",
                                      extra_args=["-depth", "80", "-seed", str(common.seed() + 3)])
    else:
        got, st = common.gen_programs(prop, name, fam, budget, workers=workers)
    total = len(got)
    got = [p for p in got if chain_steps_m(p) and not any(mentions(l, "ds") for _, l in chain_steps_m(p))]
    if fam == "e2eb":      # the family exists for its called lambdas
        got = [p for p in got if "(lambda a:" in codec.src(p)]
    if keep is not None:
        got = common.subsample_stratified(got, keep, salt=name)
    return got, total, {k: v for k, v in st.items() if k not in ("stdout", "output")}


def run(prop, tier):
    logging.disable(logging.WARNING)
    from func_adl import EventDataset
    from func_adl.ast.aggregate_shortcuts import aggregate_node_transformer
    from func_adl.ast.func_adl_ast_utils import change_extension_functions_to_calls
    from func_adl.ast.function_simplifier import simplify_chained_calls
    rep = common.Report(prop, tier)
    progs = []
    loops = []        # chain i is rendered with loops over constants (callable supply)
    fams = {}
    if tier == "quick":
        # the families are generated (TLC), loaded and sub-sampled side by side, each by a forked worker
        import multiprocessing
        with multiprocessing.get_context("fork").Pool(min(6, len(PLANS[tier]))) as pool:
            fetched = pool.map(_fetch_family, [(prop, e, 5) for e in PLANS[tier]])
    else:
        fetched = (_fetch_family((prop, e, 16)) for e in PLANS[tier])
    for entry, (got, total, st) in zip(PLANS[tier], fetched):
        (name, fam, budget, keep) = entry[:4]
        rep.add_tlc(st)
        fams[name] = {"generated": total, "fluent_chains_replayed": len(got), "budget": budget}
        progs += got
        loops += [fam == "e2el"] * len(got)
    # model datasets exported by TLC (single source of truth), as live Python objects
    d = tlcrun.fresh_dir(common.outdir(prop, "data"))
    cfg = os.path.join(d, "te.cfg")
    tlcrun.write_cfg(cfg)
    codec.write_ndjson(os.path.join(d, "in.ndjson"), [])
    open(os.path.join(d, "in.ndjson"), "w").write(codec.dumps({"id": 0, "t": codec.T("int", n=1)}) + "\n")
    st = tlcrun.run("TraceEval", cfg, d, env={"IN_FILE": os.path.join(d, "in.ndjson"),
                                               "OUT_FILE": os.path.join(d, "vals.ndjson"),
                                               "DATA_FILE": os.path.join(d, "data.ndjson")}, workers=1)
    rep.add_tlc(st)
    datasets = [pyref.from_value(v) for v in codec.load_ndjson(os.path.join(d, "data.ndjson"))]

    tns = {}
    exec(compile(TYPED_SOURCE, "<typed universe C01>", "exec"), tns)

    class DS(EventDataset):
        def __init__(self, typed, log):
            if typed:
                super().__init__(tns["Evt"])
            else:
                super().__init__()
            self.log = log

        async def execute_result_async(self, a, title=None):
            self.log.append(a)
            return 0

    # callable supply: modules with the real lambdas
    moddir = tlcrun.fresh_dir(common.outdir(prop, "mod"))
    CHUNK = 250
    mods = {}
    for c0 in range(0, len(progs), CHUNK):
        name = f"c01_queries_{c0 // CHUNK}"
        modpath = os.path.join(moddir, name + ".py")
        with open(modpath, "w") as f:
            f.write("CUT = 30\nSCALE = 2\nx = 1000  # module globals named like the binders the programs use\ny = 2000\n" + pyref.HELPERS_SRC.replace("\ndef ", "\n\n\ndef ") + "\n\n")
            for i in range(c0, min(c0 + CHUNK, len(progs))):
                if loops[i]:
                    f.write(f"def q_{i}(ds):\n{render_chain(chain_steps_m(progs[i]))}\n\n\n")
                    continue
                body = "        ds\n"
                for op, lam in chain_steps_m(progs[i]):
                    body += f"        .{op}({codec.src(lam)})\n"
                f.write(f"def q_{i}(ds):\n    return (\n{body}    )\n\n\n")
        spec = importlib.util.spec_from_file_location(name, modpath)
        mod = importlib.util.module_from_spec(spec)
        sys.modules[name] = mod
        spec.loader.exec_module(mod)
        for i in range(c0, min(c0 + CHUNK, len(progs))):
            mods[i] = mod

    def replay_one(i):
        p = progs[i]
        recs = []
        steps = chain_steps_m(p)
        src = codec.src(p)
        mean = [pyref.run_source(src, ds) for ds in datasets]
        for variant in range(2):
            how = 2 if loops[i] else (i + variant) % 3             # str / ast / callable
            typed = (i // 3 + variant) % 2 == 0
            terminal = (i + variant) % 5 == 0
            rec = {"id": 2 * i + variant, "pass": "e2e", "in": p, "out": codec.T("absent"), "out2": codec.T("absent"),
                   "mean": mean, "exc": "", "exc2": "", "flags": {"compiles": True, "shape": False},
                   "variant": {"supply": ["str", "ast", "callable"][how], "typed": typed, "terminal": terminal}}
            log = []
            try:
                ds = DS(typed, log)
                if how == 2:
                    s = getattr(mods[i], f"q_{i}")(ds)
                else:
                    s = ds
                    for op, lam in steps:
                        text = codec.src(lam)
                        s = getattr(s, op)(text if how == 0 else ast.parse(text).body[0].value)
                if terminal:
                    s = s.AsAwkwardArray(["c"])
                    rec["mean"] = [m if m["t"] in ("err", "unm") else
                                   pyref.V("tup", e=[pyref.V("str", s="ResultAwkwardArray"), m,
                                                     pyref.V("list", e=[pyref.V("str", s="c")])]) for m in mean]
                    rec["in"] = codec.T("call", n=2, a=[codec.T("name", s="ResultAwkwardArray"), p,
                                                        codec.T("list", a=[codec.T("str", s="c")])])
                s.value()
                if len(log) != 1:
                    rec["exc"] = f"executor called {len(log)} times"
                else:
                    rec["out"] = codec.enc(log[0])
                    try:
                        a2 = change_extension_functions_to_calls(log[0])
                        a2 = aggregate_node_transformer().visit(a2)
                        a2 = simplify_chained_calls().visit(a2)
                        rec["out2"] = codec.enc(a2)
                    except Exception as e:
                        rec["exc2"] = type(e).__name__
            except Exception as e:
                rec["exc"] = type(e).__name__
                rec["msg"] = str(e)[:120]
            recs.append(rec)
        return recs

    # the chains are independent of each other: replayed by forked workers (the generated modules are already imported)
    global _REPLAY_ONE
    _REPLAY_ONE = replay_one
    import multiprocessing
    with multiprocessing.get_context("fork").Pool(min(16, os.cpu_count() or 1)) as pool:
        recs = [r for rs in pool.map(_call_replay_one, range(len(progs)), chunksize=50) for r in rs]
    vrecs = [{k: r[k] for k in ("id", "pass", "in", "out", "out2", "mean", "exc", "exc2", "flags")} for r in recs]
    verdicts, vst = common.validate(prop, "e2e", "TracePass", vrecs)
    rep.add_tlc(vst)
    rep.traces = len(recs)
    rep.evaluations = len(recs)
    counts = {}
    oracle = []
    for cid, v in sorted(verdicts.items()):
        r = recs[cid]
        key = v["v"] + (":" + v["clause"] if v["clause"] else "")
        counts[key] = counts.get(key, 0) + 1
        if v["v"] == "ACCEPT":
            if v["nontrivial"]:
                rep.nontrivial += 1
            if cid % 983 == 0:
                rep.sample({"chain": codec.src(r["in"]), "variant": r["variant"],
                            "executor_ast": codec.src(r["out"]), "after_backend_passes": codec.src(r["out2"])})
        elif v["v"] == "ORACLE":
            oracle.append((codec.src(r["in"]), v["d"]))
        else:
            rep.reject(cid, v["clause"], {"property": prop, "chain": codec.src(r["in"]), "variant": r["variant"],
                                          "case": r["in"], "dataset": v["d"],
                                          "executor_ast": codec.src(r["out"]) if r["out"]["k"] != "absent" else r["exc"] + " " + r.get("msg", ""),
                                          "after_backend_passes": codec.src(r["out2"]) if r["out2"]["k"] != "absent" else r["exc2"],
                                          "verdict": v})
    if oracle:
        raise common.MachineryError(f"Sem.Eval disagrees with CPython on {len(oracle)} programs, e.g. {oracle[0]}")
    rep.extra.update(families=fams, verdicts=counts, variants="each chain twice: supply str/ast/callable rotating, "
                     "typed/untyped root alternating, every 5th with an AsAwkwardArray terminal")
    rep.rule = ("chains = programs of spec/Grammar.tla family 'e2e' (user-style method-form operators, method calls with "
                "defaults and keyword arguments on the model classes, arithmetic, comparisons, conditionals, tuple "
                "projection, nested Select / Where / SelectMany / First / Count / Sum) that are fluent chains; each is "
                "(a) executed directly by CPython on the model datasets exported by TLC (harness/pyref.py) and (b) built "
                "with the real operators (str / ast / real-lambda supply, typed and untyped root, optional terminal) "
                "and executed with value(); TLC (TracePass.JudgeE2E) decides Eval(AST the executor received, d) = what "
                "CPython computed, again after change_extension_functions_to_calls + aggregate_node_transformer + "
                "simplify_chained_calls, and cross-checks Sem against CPython on the user's chain itself; non-trivial "
                "= CPython's result is non-empty and error-free on some dataset")
    rep.assumptions = ["integer / boolean fragment; 5 model datasets", "typed root = generated annotated classes with the "
                       "same signatures as spec/Sem.tla MethodSig"]
    return rep.finish()
