"""C05: captured one-line helper functions are inlined faithfully.

The helper table lives in spec/Sem.tla (HelperLam): Eval gives a call h(args) the meaning "Python calls the
helper".  The same helpers are rendered here as real defs / a lambda in a generated module, together with one
call site per program (fluent chain with real lambdas), so the real capture + inlining code runs.
"""

import importlib.util
import logging
import os
import sys

import codec
import common
import props_hash
import tlcrun

HELPER_SOURCE = '''
from dataclasses import dataclass


@dataclass
class Rec2:
    a: int
    b: int = 22


def h_rec(v):
    return v.a + v.b


def h_id(a):
    return a


def h_inc(a):
    return a + 1


def h_sub(a, b=5):
    return a - b


h_lam = lambda a: a * 2  # noqa: E731
h_la, h_lb = (lambda j: j * 2), (lambda j: j * 5)  # noqa: E731


def h_nest(a):
    return Count(Select(a.trks, lambda a: a.pt))


def h_nest2(a, b):
    return Sum(Select(a.trks, lambda b: b.pt)) + b


def h_two(j):
    return h_inc(j.pt)


def h_cap(a):
    return Sum(Select(a.trks, lambda t: t.pt + a.pt))


def h_kw(x, y=2):
    return x * 3 - y


def h_deep(c):
    return Sum(SelectMany(c.jets, lambda r: Select(r.trks, lambda t: t.pt + c.met)))


def h_comp(a):
    return Sum([a.pt for a in a.trks])


def h_comp2(c):
    return Sum([a.pt + c.pt for a in c.trks])


def h_d3(x, y=2, z=7):
    return x * 100 + (y * 10 + z)


def h_cd(a):
    return (lambda x, s=2: x * s)(a)


def h_po(a, b, /):
    return a - b


def h_po2(a, /, b):
    return a * 10 + b


def h_ko(a, *, b):
    return a * 10 + b


def h_kod(a, *, b=4):
    return a * 10 + b


t = 7        # a module-level constant used by h_gl (t is also a parameter name of the generated query lambdas)


def h_gl(a):
    return a + t


_h_list = [
    lambda j: j * 3,
    lambda j: j + 200,
]
h_l1, h_l2 = _h_list


def h_pg(a, t):
    return a * 10 + t


def h_kwi(a, b):
    return (lambda a, b: a * 10 + b)(b=a, a=b)


def h_th(a):
    return (lambda: 3)() + a


def _h_re(kind):
    if kind == 1:
        def h_re(a):
            return a * 2
    else:
        def h_re(a):
            return a + 100
    return h_re


h_re1 = _h_re(1)   # two function objects with the same __name__, __qualname__ and file
h_re2 = _h_re(2)
'''

# (budget 4 of the helper family has > 13M derivation states since the table grew to 34 helpers: explored by seeded
#  random walks of budgets 4 and 5 instead of exhaustively)
PLANS = {"quick": [("helper3", "helper", 3, 9000)],
         "thorough": [("helper3", "helper", 3, None), ("helperR4", "helper", 4, 80000, 60000),
                      ("helperR5", "helper", 5, 60000, 40000)]}


def run(prop, tier):
    logging.disable(logging.WARNING)
    from func_adl import EventDataset
    rep = common.Report(prop, tier)
    progs_all = []
    fams = {}
    for entry in PLANS[tier]:
        (name, fam, budget, keep) = entry[:4]
        if len(entry) > 4:
            progs, st = common.gen_programs(prop, name, fam, budget, simulate=f"num={max(1, entry[4] // 16)}",
                                            extra_args=["-depth", "80", "-seed", str(common.seed() + 5)])
        else:
            progs, st = common.gen_programs(prop, name, fam, budget)
        rep.add_tlc(st)
        total = len(progs)
        progs = [p for p in progs if any(f.startswith("fn:h_") for f in common.term_features(p))
                 and props_hash.is_chain(p) and p["k"] == "call"
                 and not any(props_hash.mentions(l, "ds") for _, l in props_hash.chain_steps(p))]
        if keep is not None:
            progs = common.subsample_stratified(progs, keep, salt=name)
        fams[name] = {"generated": total, "with_helper_call_replayed": len(progs), "budget": budget}
        progs_all += progs
    moddir = tlcrun.fresh_dir(common.outdir(prop, "mod"))
    CHUNK = 250     # source recovery re-reads the whole file per lambda: keep the modules small
    mods = {}
    for c0 in range(0, len(progs_all), CHUNK):
        name = f"c05_queries_{c0 // CHUNK}"
        modpath = os.path.join(moddir, name + ".py")
        with open(modpath, "w") as f:
            f.write(HELPER_SOURCE + "\n\n")
            for i in range(c0, min(c0 + CHUNK, len(progs_all))):
                # black-style wrapped chain: one operator call per line
                body = "        ds\n"
                for op, lam in props_hash.chain_steps(progs_all[i]):
                    body += f"        .{op}({codec.src(lam)})\n"
                f.write(f"def q_{i}(ds):\n    return (\n{body}    )\n\n\n")
        spec = importlib.util.spec_from_file_location(name, modpath)
        mod = importlib.util.module_from_spec(spec)
        sys.modules[name] = mod
        spec.loader.exec_module(mod)
        for i in range(c0, min(c0 + CHUNK, len(progs_all))):
            mods[i] = mod

    class DS(EventDataset):
        async def execute_result_async(self, a, title=None):
            return 0

    recs = []
    for i, p in enumerate(progs_all):
        rec = {"id": i, "pass": "helper", "in": p, "out": codec.T("absent"), "exc": "",
               "flags": {"compiles": True, "shape": False}}
        try:
            s = getattr(mods[i], f"q_{i}")(DS())
            rec["out"] = codec.enc(s.query_ast)
            import ast
            try:
                compile(ast.unparse(s.query_ast), "<out>", "eval")
            except Exception:
                rec["flags"]["compiles"] = False
        except Exception as e:
            rec["exc"] = type(e).__name__
            rec["msg"] = str(e)[:120]
        recs.append(rec)
    vrecs = [{k: r[k] for k in ("id", "pass", "in", "out", "exc", "flags")} for r in recs]
    verdicts, vst = common.validate(prop, "helper", "TracePass", vrecs)
    rep.add_tlc(vst)
    rep.traces = len(recs)
    rep.evaluations = len(recs)
    counts = {}
    for cid, v in sorted(verdicts.items()):
        key = v["v"] + (":" + v["clause"] if v["clause"] else "")
        counts[key] = counts.get(key, 0) + 1
        r = recs[cid]
        if v["v"] == "ACCEPT":
            if v["nontrivial"]:
                rep.nontrivial += 1
            if cid % 701 == 0:
                rep.sample({"query": codec.src(r["in"]), "emitted": codec.src(r["out"])})
        elif v["v"] == "REJECT":
            rep.reject(cid, v["clause"], {"property": prop, "query": codec.src(r["in"]), "case": r["in"],
                                          "observed": (r["exc"] + " " + r.get("msg", "")) if r["exc"]
                                          else codec.src(r["out"]), "verdict": v},
                       tags=helper_tags(r["in"]))
        else:
            counts["UNMODELLED"] = counts.get("UNMODELLED", 0) + 1
    rep.extra.update(families=fams, verdicts=counts, helpers=sorted(
        ["h_id(a)=a", "h_inc", "h_sub(a,b=5)", "h_lam=lambda", "h_nest (inner lambda re-binds a)",
         "h_nest2 (inner lambda re-binds b)", "h_two (calls h_inc)", "h_cap (inner lambda uses outer a)", "h_kw(x,y=2)"]))
    rep.rule = ("programs = spec/Grammar.tla family 'helper' (helper calls with positional / keyword / re-ordered / "
                "defaulted arguments, argument expressions over binders named like the helpers' own parameters and "
                "inner binders) that are fluent chains; rendered into a module with the real helper defs and real "
                "lambdas; the emitted query_ast is judged by TLC: well-scoped, compiles, and Eval(emitted) = Eval(query "
                "with the helper called as Python calls it) on every model dataset; non-trivial = non-empty error-free "
                "reference value")
    rep.assumptions = ["helper table of 9 helpers (spec/Sem.tla HelperLam)"]
    return rep.finish()


def helper_tags(t):
    return set()
