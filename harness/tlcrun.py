"""Run TLC on the modules in /verif/spec; parse its statistics; shard trace validation."""

import os
import re
import shutil
import subprocess
import time

VERIF_ROOT = os.path.dirname(os.path.dirname(os.path.abspath(__file__)))
SPEC_DIR = os.path.join(VERIF_ROOT, "spec")
OUT_ROOT = os.path.join(VERIF_ROOT, "out")
JAR = "/opt/veriftools/tla/tla2tools.jar"
CM = "/opt/veriftools/tla/CommunityModules-deps.jar"


class TLCError(Exception):
    pass


def _java_cmd(tmpdir, xmx, gc_threads, extra_props=()):
    return [
        "java", "-XX:+UseParallelGC", f"-XX:ParallelGCThreads={gc_threads}", f"-Xmx{xmx}",
        f"-Djava.io.tmpdir={tmpdir}", *extra_props, "-cp", f"{JAR}:{CM}", "tlc2.TLC",
    ]


def fresh_dir(path):
    shutil.rmtree(path, ignore_errors=True)
    os.makedirs(path, exist_ok=True)
    return path


def write_cfg(path, spec="Spec", constants=None, invariants=(), properties=(), constraints=(),
              action_constraints=(), postcondition=None, view=None, symmetry=None, init=None, nxt=None,
              deadlock=False):
    lines = []
    if init and nxt:
        lines += [f"INIT {init}", f"NEXT {nxt}"]
    else:
        lines.append(f"SPECIFICATION {spec}")
    if constants:
        lines.append("CONSTANTS")
        for k, v in constants.items():
            lines.append(f"  {k} = {v}" if not str(v).startswith("<-") else f"  {k} {v}")
    for i in invariants:
        lines.append(f"INVARIANT {i}")
    for p in properties:
        lines.append(f"PROPERTY {p}")
    for c in constraints:
        lines.append(f"CONSTRAINT {c}")
    for c in action_constraints:
        lines.append(f"ACTION_CONSTRAINT {c}")
    if postcondition:
        lines.append(f"POSTCONDITION {postcondition}")
    if view:
        lines.append(f"VIEW {view}")
    if symmetry:
        lines.append(f"SYMMETRY {symmetry}")
    lines.append("CHECK_DEADLOCK " + ("TRUE" if deadlock else "FALSE"))
    with open(path, "w") as f:
        f.write("\n".join(lines) + "\n")


_STATS = re.compile(r"(\d+) states generated, (\d+) distinct states found, (\d+) states left on queue")
_DEPTH = re.compile(r"The depth of the complete state graph search is (\d+)")


def parse_stats(out):
    st = {"generated": 0, "distinct": 0, "queue": 0, "depth": 0}
    for m in _STATS.finditer(out):
        st["generated"], st["distinct"], st["queue"] = int(m.group(1)), int(m.group(2)), int(m.group(3))
    m = _DEPTH.search(out)
    if m:
        st["depth"] = int(m.group(1))
    st["no_error"] = "Model checking completed. No error has been found." in out or \
        "Finished computing" in out and "Error:" not in out
    st["violated"] = [m.group(1) for m in re.finditer(r"Invariant (\w+) is violated", out)]
    if "is violated" in out and not st["violated"]:
        st["violated"] = ["(property)"]
    st["error"] = "Error:" in out
    return st


def run(module, cfg_path, outdir, env=None, workers=16, xmx="8g", timeout=3600, simulate=None,
        extra_args=(), dfs=False, check=True, coverage=False):
    """Run TLC once.  Returns dict(stats..., stdout, wall_s, rc)."""
    os.makedirs(outdir, exist_ok=True)
    tmpdir = os.path.join(outdir, "jtmp")
    os.makedirs(tmpdir, exist_ok=True)
    props = []
    if dfs:
        props.append("-Dtlc2.tool.queue.IStateQueue=StateDeque")
    cmd = _java_cmd(tmpdir, xmx, max(2, min(workers, 8)), props)
    cmd += ["-workers", str(workers), "-metadir", os.path.join(outdir, "md"), "-noGenerateSpecTE",
            "-config", cfg_path]
    if simulate:
        cmd += ["-simulate", simulate]
    if coverage:
        cmd += ["-coverage", "1"]
    cmd += list(extra_args)
    cmd.append(module if module.endswith(".tla") else module + ".tla")
    e = dict(os.environ)
    if env:
        e.update({k: str(v) for k, v in env.items()})
    t0 = time.time()
    for attempt in range(3):
        try:
            p = subprocess.run(cmd, cwd=SPEC_DIR, env=e, capture_output=True, text=True, timeout=timeout)
        except subprocess.TimeoutExpired as ex:
            raise TLCError(f"TLC timed out after {timeout}s on {module}") from ex
        out = p.stdout + p.stderr
        # the Export "invariants" only write a line to a file; a false one is a failed write (seen once under heavy
        # load), never a property: start that generation again from an empty file
        if "Invariant Export is violated" in out and env and env.get("OUT_FILE") and attempt < 2:
            try:
                os.remove(str(env["OUT_FILE"]))
            except OSError:
                pass
            shutil.rmtree(os.path.join(outdir, "md"), ignore_errors=True)
            continue
        break
    st = parse_stats(out)
    st.update(stdout=out, wall_s=time.time() - t0, rc=p.returncode)
    shutil.rmtree(os.path.join(outdir, "md"), ignore_errors=True)
    shutil.rmtree(tmpdir, ignore_errors=True)
    if check and (p.returncode != 0 or st["error"]):
        tail = "\n".join(out.splitlines()[-40:])
        raise TLCError(f"TLC failed on {module} (rc={p.returncode}):\n{tail}")
    return st


def run_shards(module, cfg_path, outdir, shard_envs, xmx="3g", timeout=3600, dfs=False):
    """Run one single-worker JVM per shard env in parallel (at most 16 at a time)."""
    os.makedirs(outdir, exist_ok=True)
    procs = []
    results = []
    t0 = time.time()
    pending = list(enumerate(shard_envs))
    running = []
    retried = set()
    maxpar = int(os.environ.get("VERIF_JOBS", "16"))

    def start(i, env):
        sd = os.path.join(outdir, f"shard{i}")
        os.makedirs(os.path.join(sd, "jtmp"), exist_ok=True)
        props = ["-Dtlc2.tool.queue.IStateQueue=StateDeque"] if dfs else []
        cmd = _java_cmd(os.path.join(sd, "jtmp"), xmx, 2, props)
        cmd += ["-workers", "1", "-metadir", os.path.join(sd, "md"), "-noGenerateSpecTE",
                "-config", cfg_path, module if module.endswith(".tla") else module + ".tla"]
        e = dict(os.environ)
        e.update({k: str(v) for k, v in env.items()})
        logf = open(os.path.join(sd, "tlc.log"), "w")
        p = subprocess.Popen(cmd, cwd=SPEC_DIR, env=e, stdout=logf, stderr=subprocess.STDOUT)
        return (i, p, sd, logf)

    while pending or running:
        while pending and len(running) < maxpar:
            i, env = pending.pop(0)
            running.append(start(i, env))
        still = []
        for (i, p, sd, logf) in running:
            rc = p.poll()
            if rc is None:
                if time.time() - t0 > timeout:
                    p.kill()
                    raise TLCError(f"TLC shard {i} timed out")
                still.append((i, p, sd, logf))
                continue
            logf.close()
            out = open(os.path.join(sd, "tlc.log")).read()
            st = parse_stats(out)
            st.update(stdout=out, rc=rc, shard=i)
            shutil.rmtree(os.path.join(sd, "md"), ignore_errors=True)
            shutil.rmtree(os.path.join(sd, "jtmp"), ignore_errors=True)
            if (rc != 0 or st["error"]) and i not in retried:
                # one more try for this shard from an empty verdict file (transient I/O failures under heavy load)
                retried.add(i)
                env_i = dict(shard_envs[i])
                try:
                    os.remove(str(env_i.get("OUT_FILE", "")))
                except OSError:
                    pass
                still.append(start(i, env_i))
                continue
            if rc != 0 or st["error"]:
                for (_, q, _, _) in still + running:
                    try:
                        q.kill()
                    except Exception:
                        pass
                tail = "\n".join(out.splitlines()[-40:])
                raise TLCError(f"TLC shard {i} failed on {module} (rc={rc}):\n{tail}")
            results.append(st)
        running = still
        if running:
            time.sleep(0.05)
    results.sort(key=lambda s: s["shard"])
    return results, time.time() - t0


def sany(module):
    cmd = ["java", "-cp", f"{JAR}:{CM}", "tla2sany.SANY", module]
    p = subprocess.run(cmd, cwd=SPEC_DIR, capture_output=True, text=True)
    ok = p.returncode == 0 and "Semantic errors" not in p.stdout and "*** Errors" not in p.stdout \
        and "Fatal" not in p.stdout and "Could not" not in p.stdout
    return ok, p.stdout + p.stderr
