"""func_adl.ast.call_stack (argument_stack / stack_frame) against spec/CallStack.tla.

A component of the C02 check (the simplifier's scoping rests on this stack):
  design  : TLC checks TypeOK, InnermostWins, FrameDiscipline, NoLeak on CallStack.tla
  spec->code: every behaviour of CallStack.tla up to MaxSteps (exported by TLC) is replayed into a real
              argument_stack, frames pushed / popped by the stack_frame context manager (what the simplifier uses)
  code->spec: after each step the lookups observed for every name are recorded; TLC (TraceCallStack) decides whether
              the recorded history is a behaviour of the specification
"""
import ast
import json
import os

import codec
import common
import tlcrun

PLANS = {"quick": {"MaxDepth": 3, "MaxSteps": 5}, "thorough": {"MaxDepth": 4, "MaxSteps": 7}}
NAMES = ("a", "b")
DEFAULT = 9


def replay(tid, hist):
    from func_adl.ast.call_stack import argument_stack, stack_frame
    stk = argument_stack()
    cms = []            # how each open frame was pushed: a context manager or None (method call)
    sentinel = ast.Constant(value=DEFAULT)
    recs = []
    broken = ""
    for i, a in enumerate(hist):
        swallowed = False
        if broken:
            # the stack raised at an earlier step: the rest of the history is reported as not matching (vis = -2)
            recs.append({"tid": tid, "step": i + 1, "act": a["act"], "n": a["n"], "v": a["v"],
                         "vis": {n: -2 for n in NAMES}, "depth": -1, "swallowed": False})
            continue
        try:
            _step(stk, cms, a)
            swallowed = cms_swallowed.pop() if cms_swallowed else False
            vis = {}
            for n in NAMES:
                got = stk.lookup_name(n, sentinel)
                vis[n] = got.value if isinstance(got, ast.Constant) else -1
        except Exception as e:          # the implementation raised: judged by TLC as a wrong observation
            broken = type(e).__name__
            vis = {n: -2 for n in NAMES}
        recs.append({"tid": tid, "step": i + 1, "act": a["act"], "n": a["n"], "v": a["v"], "vis": vis, "depth": -1,
                     "swallowed": swallowed})
    return recs


cms_swallowed = []


def _step(stk, cms, a):
    from func_adl.ast.call_stack import stack_frame
    swallowed = False
    # only what the simplifier itself uses: frames come and go through the stack_frame context manager
    if a["act"] == "push":
        cm = stack_frame(stk)
        cm.__enter__()
        cms.append(cm)
    elif a["act"] in ("pop", "raise"):
        cm = cms.pop() if cms else stack_frame(stk)
        if a["act"] == "raise":
            # the body of a with-block raises: __exit__ runs with the exception and must not swallow it
            try:
                raise KeyError("body failed")
            except KeyError as e:
                swallowed = bool(cm.__exit__(type(e), e, e.__traceback__))
        else:
            cm.__exit__(None, None, None)
    elif a["act"] == "define":
        stk.define_name(a["n"], ast.Constant(value=a["v"]))
    cms_swallowed.append(swallowed)


def component(prop, tier, rep):
    plan = PLANS[tier]
    d = tlcrun.fresh_dir(common.outdir(prop, "callstack_mc"))
    cfg = os.path.join(d, "mc.cfg")
    tlcrun.write_cfg(cfg, constants=plan, invariants=["TypeOK", "InnermostWins"], properties=["FrameDiscipline", "NoLeak"],
                     view="NoHistView")
    st = tlcrun.run("CallStack", cfg, d, workers=4)
    rep.add_tlc(st)
    info = {"design": {"module": "CallStack", "constants": plan, "states": st["distinct"],
                       "checked": ["TypeOK", "InnermostWins", "FrameDiscipline", "NoLeak"]}}
    d = tlcrun.fresh_dir(common.outdir(prop, "callstack_gen"))
    cfg = os.path.join(d, "gen.cfg")
    tlcrun.write_cfg(cfg, constants=plan, invariants=["Export"])
    out = os.path.join(d, "hist.ndjson")
    st = tlcrun.run("CallStack", cfg, d, env={"OUT_FILE": out}, workers=4)
    rep.add_tlc(st)
    hs = [json.loads(x) for x in sorted({line.strip() for line in open(out) if line.strip()})]
    # maximal histories only (every prefix is contained in one)
    hs = [h for h in hs if len(h) == plan["MaxSteps"]]
    if tier == "quick":
        hs = common.subsample(hs, 4000, salt="callstack")
    recs = []
    for tid, h in enumerate(hs):
        recs += replay(tid, h)
    for i, r in enumerate(recs):
        r["id"] = i
    verdicts, vst = common.validate(prop, "callstack", "TraceCallStack", recs, group=lambda r: r["tid"],
                                    rec_id=lambda r: (r["tid"], r["step"]), verdict_id=lambda v: (v["tid"], v["step"]),
                                    per_shard=4000)
    rep.add_tlc(vst)
    bad = {}
    for r in recs:
        v = verdicts[(r["tid"], r["step"])]
        clause = v["clause"] or ("Swallowed" if r["swallowed"] else "")
        if clause and r["tid"] not in bad:
            bad[r["tid"]] = (r, clause)
    rep.traces += len(hs)
    rep.evaluations += len(recs)
    rep.nontrivial += len(hs) - len(bad)
    for tid, (r, clause) in sorted(bad.items()):
        rep.reject(10 ** 7 + tid, "CallStack:" + clause,
                   {"property": prop, "component": "call_stack.argument_stack", "history": hs[tid], "failing_step": r,
                    "clause": clause})
    info["conformance"] = {"histories": len(hs), "steps": len(recs), "rejected": len(bad)}
    rep.extra["call_stack_component"] = info
