"""C10: untyped queries pass through unchanged; refusals are explicit.

spec -> code : lambdas = derivations of spec/GenExpr.tla (whole expression grammar), names decorated from
               the identifier pool of DESIGN.md A.2, supplied as str / ast / real callable
code -> spec : (op, lambda given, lambda emitted | exception class) judged by TLC
               (TraceTyped.JudgeUntyped with TypeFollow.AllowedUntyped)
"""

import ast
import importlib.util
import json
import logging
import os
import random
import sys

import codec
import common
import tlcrun

ATTR_POOL = ["a", "b", "value", "args", "func", "id", "attr", "elts", "keys", "values", "slice", "body", "n", "s",
             "zip", "kind", "ctx", "op", "left", "right"]
OPS = ("Select", "SelectMany", "Where")
PLANS = {"quick": {"budget": 2, "keep": 7000, "rand": (300, 4), "supplies": 1},
         "thorough": {"budget": 2, "keep": None, "rand": (6000, 5), "supplies": 3}}


def gen(prop, name, budget, simulate=None, extra_args=()):
    d = tlcrun.fresh_dir(common.outdir(prop, "gen_" + name))
    cfg = os.path.join(d, "gen.cfg")
    tlcrun.write_cfg(cfg, constants={"Budget": budget, "Rand": "TRUE" if simulate else "FALSE"}, invariants=["Export"])
    out = os.path.join(d, "lams.ndjson")
    st = tlcrun.run("GenExpr", cfg, d, env={"OUT_FILE": out}, workers=16, simulate=simulate, extra_args=extra_args)
    seen = set()
    if os.path.exists(out):
        for line in open(out):
            line = line.strip()
            if line:
                seen.add(line)
    return [json.loads(x) for x in sorted(seen)], st


def decorate(t, rnd):
    """rename attribute / method / keyword names from the pool (rendering step)"""
    t = dict(t)
    t["a"] = [decorate(c, rnd) for c in t["a"]]
    if t["k"] == "attr" and t["s"] in ("a", "value", "m") and t["a"][0]["k"] != "dict":
        t["s"] = rnd.choice(ATTR_POOL)
    if t["k"] == "call" and t["p"] == ["kw"]:
        t["p"] = [rnd.choice(ATTR_POOL)]
    return t


_FN = {}


def _call(f, arg):
    return f(arg)


def run(prop, tier):
    logging.disable(logging.WARNING)
    from func_adl import EventDataset
    rep = common.Report(prop, tier)
    plan = PLANS[tier]
    lams, st = gen(prop, "bfs", plan["budget"])
    rep.add_tlc(st)
    total = len(lams)
    if plan["keep"] is not None:
        # conditionals over a field of a dictionary literal exercise the follower's typing of literals: kept whole
        def cond_on_dict_field(t):
            return (t["k"] == "ifexp" and any(c["k"] in ("sub", "attr") and c["a"][0]["k"] == "dict" for c in t["a"][1:])) \
                or any(cond_on_dict_field(c) for c in t["a"])
        prio = [x for x in lams if cond_on_dict_field(x)]
        rest = [x for x in lams if not cond_on_dict_field(x)]
        lams = prio + common.subsample_stratified(rest, max(0, plan["keep"] - len(prio)), salt="c10")
    fam = {"bfs": {"budget": plan["budget"], "generated": total, "used": len(lams), "exhaustive": len(lams) == total}}
    nrand, rb = plan["rand"]
    rl, st = gen(prop, "rand", rb, simulate=f"num={max(1, nrand // 160)}",
                 extra_args=["-depth", "60", "-seed", str(common.seed() + 5)])
    rep.add_tlc(st)
    rl = common.subsample(rl, nrand, salt="c10r")
    fam["random"] = {"budget": rb, "generated": len(rl), "used": len(rl), "exhaustive": False}
    rnd = random.Random(common.seed() + 23)
    lams = [decorate(x, rnd) for x in lams + rl]

    class DS(EventDataset):
        async def execute_result_async(self, a, title=None):
            return 0

    # module with the real lambdas (callable supply): one call site per lambda and operator
    moddir = tlcrun.fresh_dir(common.outdir(prop, "mod"))
    jobs = []
    for i, lam in enumerate(lams):
        for j, op in enumerate(OPS):
            for k in range(plan["supplies"]):
                jobs.append((len(jobs), i, op, (i + j + k) % 3))
    # history independence: everything with a dict literal is replayed a second time in the opposite order
    # (state that leaks from one query into the next shows up as a refusal / change in one of the two passes)
    def has_dict(t):
        return t["k"] == "dict" or any(has_dict(c) for c in t["a"])
    again = [j for j in jobs if j[3] == 0 and has_dict(lams[j[1]])]
    for (_, i, op, how) in reversed(again):
        jobs.append((len(jobs), i, op, how))
    # source recovery re-reads the defining file for every lambda: keep each generated module small
    CHUNK = 400
    by_chunk = {}
    for (jid, i, op, how) in jobs:
        if how == 2:
            by_chunk.setdefault(jid // CHUNK, []).append((jid, i, op))
    import warnings
    warnings.filterwarnings("ignore", category=SyntaxWarning)
    mods = {}
    for c, items in by_chunk.items():
        mp_ = os.path.join(moddir, f"c10_queries_{c}.py")
        with open(mp_, "w") as f:
            for (jid, i, op) in items:
                f.write(f"def q_{jid}(ds):\n    return ds.{op}({codec.src(lams[i])})\n\n\n")
        spec = importlib.util.spec_from_file_location(f"c10_queries_{c}", mp_)
        mod = importlib.util.module_from_spec(spec)
        sys.modules[f"c10_queries_{c}"] = mod
        spec.loader.exec_module(mod)
        mods[c] = mod

    def run_jobs(joblist):
        out = []
        for (jid, i, op, how) in joblist:
            out.append(run_job(jid, i, op, how))
        return out

    def run_job(jid, i, op, how):
        lam = lams[i]
        src = codec.src(lam)
        given = codec.enc(ast.parse(src).body[0].value)
        rec = {"id": jid, "kind": "untyped", "op": op, "in": given, "out": codec.T("absent"), "exc": "",
               "supply": ["str", "ast", "callable"][how]}
        try:
            ds = DS()
            if how == 0:
                s = getattr(ds, op)(src)
            elif how == 1:
                s = getattr(ds, op)(ast.parse(src).body[0].value)
            else:
                s = getattr(mods[jid // CHUNK], f"q_{jid}")(ds)
            q = s.query_ast
            if not (isinstance(q, ast.Call) and isinstance(q.func, ast.Name) and q.func.id == op and len(q.args) == 2
                    and codec.enc(q.args[0]) == codec.enc(ds.query_ast)):
                rec["exc"] = "WrongWrapper"
            else:
                rec["out"] = codec.enc(q.args[1])
        except Exception as e:
            rec["exc"] = type(e).__name__
            rec["msg"] = str(e)[:100]
        return rec

    # The history-independence cases run in two forked children (fresh library state each), one per order, so
    # that state kept by the library between queries (caches) is seen whichever query comes first.
    import multiprocessing as mp
    n_main = len(jobs) - len(again)
    ctx = mp.get_context("fork")
    hist_jobs = jobs[n_main:]
    recs = []
    def forked(joblist):
        q = ctx.Queue()
        pr = ctx.Process(target=lambda: q.put(run_jobs(joblist)))
        pr.start()
        res = q.get()
        pr.join()
        return res
    def poisoned(value_src):
        """a fresh process in which dictionary literals with these key layouts were first seen with this value"""
        def go():
            for keys in ("'a': V", "'a': V, 'b': V", "'b': V", "'n': V, 'k': V"):
                try:
                    DS().Select("lambda e: {" + keys.replace("V", value_src) + "}")
                except Exception:
                    pass
            return run_jobs(hist_jobs)
        q = ctx.Queue()
        pr = ctx.Process(target=lambda: q.put(go()))
        pr.start()
        res = q.get()
        pr.join()
        return res
    def typed_history():
        """a fresh process in which TYPED datasets were queried first, with lambda parameters named like the names the
        untyped lambdas use (e, j, g): nothing of that may be remembered when an untyped stream is queried"""
        def go():
            ns = {}
            src = "class TEvt:\n" + "".join(f"    def {nm}(self, a: int = 4) -> int: ...\n" for nm in ATTR_POOL + ["m"])
            exec(src, ns)

            class TDS(EventDataset):
                def __init__(self):
                    super().__init__(ns["TEvt"])

                async def execute_result_async(self, a, title=None):
                    return 0
            for nm in ("g", "e", "j"):
                for op, body in (("Select", f"{nm}.m()"), ("Where", f"{nm}.m() > 0"), ("SelectMany", f"({nm}.m(),)")):
                    try:
                        getattr(TDS(), op)(f"lambda {nm}: {body}")
                    except Exception:
                        pass
            return run_jobs(free_jobs)
        q = ctx.Queue()
        pr = ctx.Process(target=lambda: q.put(go()))
        pr.start()
        res = q.get()
        pr.join()
        return res

    def uses_free(t):
        return (t["k"] == "name" and t["s"] == "g") or any(uses_free(c) for c in t["a"])
    free_jobs = [j for j in jobs[:n_main] if j[3] in (0, 1) and uses_free(lams[j[1]])]
    if plan["keep"] is not None:
        free_jobs = free_jobs[:4000]
    r1 = forked(hist_jobs)
    r2 = forked(list(reversed(hist_jobs)))
    for v in ("'s'", "1", "1.5", "True", "e.x"):
        r2 = r2 + poisoned(v)
    r2 = r2 + typed_history()
    main_jobs = jobs[:n_main]
    if len(main_jobs) > 60000:
        # thorough tier: replay in parallel, one forked process per contiguous slice (records are independent)
        W = 14
        step = (len(main_jobs) + W - 1) // W
        qs = []
        for w in range(W):
            sl = main_jobs[w * step:(w + 1) * step]
            q = ctx.Queue()
            pr = ctx.Process(target=lambda sl=sl, q=q: q.put(run_jobs(sl)))
            pr.start()
            qs.append((q, pr))
        recs = []
        for q, pr in qs:
            recs += q.get()
            pr.join()
    else:
        recs = run_jobs(main_jobs)
    recs += r1
    # second order: same jobs, new ids
    for r in r2:
        r = dict(r)
        r["id"] = len(recs)
        recs.append(r)
    vrecs = [{k: r[k] for k in ("id", "kind", "op", "in", "out", "exc")} for r in recs]
    verdicts, vst = common.validate(prop, "untyped", "TraceTyped", vrecs, per_shard=500,
                                    verdict_id=lambda v: v["verdict"]["id"])
    verdicts = {k: v["verdict"] for k, v in verdicts.items()}
    rep.add_tlc(vst)
    rep.traces = len(recs)
    rep.evaluations = len(recs)
    counts = {}
    for cid, v in sorted(verdicts.items()):
        r = recs[cid]
        key = v["v"] + ":" + v["clause"] + ("/" + r["exc"] if v["v"] == "REJECT" and r["exc"] else "")
        counts[key] = counts.get(key, 0) + 1
        if v["v"] == "ACCEPT":
            if v["nontrivial"]:
                rep.nontrivial += 1
            if cid % 997 == 0:
                rep.sample({"op": r["op"], "supply": r["supply"], "lambda": codec.src(r["in"]), "outcome": v["clause"]})
        elif v["v"] == "REJECT":
            rep.reject(cid, v["clause"], {"property": prop, "op": r["op"], "supply": r["supply"],
                                          "lambda": codec.src(r["in"]), "case": r["in"],
                                          "observed": r["exc"] + " " + r.get("msg", "") if r["exc"]
                                          else codec.src(r["out"]), "verdict": v})
        else:
            raise common.MachineryError("UNMODELLED record in C10")
    rep.extra.update(families=fam, verdicts=counts, operators=list(OPS), supplies_per_case=plan["supplies"])
    rep.rule = ("lambdas = complete derivations of spec/GenExpr.tla (budget of constructs; exhaustive BFS or sub-sample, "
                "plus seeded -simulate walks with a larger budget), attribute/keyword names drawn from a pool that "
                "includes names of Python's own ast fields; each is passed to Select, SelectMany and Where of an untyped "
                "EventDataset as str / ast / callable (rotating; all three in the thorough tier) and the outcome is judged "
                "by TLC: unchanged, or ValueError only where TypeFollow.Trigger allows; non-trivial = a case in which "
                "no refusal is allowed (the lambda MUST come out unchanged) and did")
    rep.exhaustive = False
    rep.assumptions = ["Trigger over-approximates the designed refusals (DESIGN.md A.4)"]
    return rep.finish()
