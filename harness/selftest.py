"""Binding demonstration (DESIGN.md 4.4): take records the trace specifications ACCEPTED in the last run of each
check, corrupt one recorded field, and require TLC to reject exactly those records.

usage: bin/check selftest        (needs the out/ directories of a previous quick run of the checks)
"""
import copy
import glob
import json
import os

import codec
import common
import tlcrun


def _load(prop, sub, n=40):
    files = sorted(glob.glob(os.path.join(common.OUT_ROOT, prop, sub, "in*.ndjson")))
    recs = []
    for f in files[:2]:
        recs += codec.load_ndjson(f)
    return recs[: n * 20]


def _bump_int(t):
    """change the first integer constant found in a term; returns (term, changed?)"""
    if t["k"] == "int":
        t2 = dict(t)
        t2["n"] = t["n"] + 1
        return t2, True
    out = dict(t)
    out["a"] = list(t["a"])
    for i, c in enumerate(t["a"]):
        c2, ch = _bump_int(c)
        if ch:
            out["a"][i] = c2
            return out, True
    return t, False


def run():
    results = []

    def expect_reject(name, prop, module, recs, key=lambda v: v["id"], group=None, rid=None, **kw):
        if not recs:
            results.append((name, "SKIPPED (no previous run)", 0, 0))
            return
        verdicts, _ = common.validate("selftest", name, module, recs, verdict_id=key, group=group, rec_id=rid, **kw)
        bad = [v for v in verdicts.values() if (v.get("v", "") == "ACCEPT" or v.get("ok") is True
                                                or v.get("verdict", {}).get("v") == "ACCEPT")]
        results.append((name, "ok" if not bad else "NOT REJECTED", len(recs), len(bad)))

    # 1. simplifier pairs: change a constant of the output
    recs = []
    for r in _load("C02", "val_simplify"):
        if r["exc"] == "" and len(recs) < 40:
            o, ch = _bump_int(r["out"])
            if ch:
                r2 = copy.deepcopy(r)
                r2["out"] = o
                recs.append(r2)
    expect_reject("simplify: constant of the output changed", "C02", "TracePass", recs)

    # 2. stream histories: a stream's view after the step differs from its creation-time view
    recs = []
    for r in _load("C11", "val_streams"):
        if r["step"] == 1:
            cur = [r]
        else:
            cur.append(r)
        if r["step"] == 3 and len(r["views"]) >= 2 and len(recs) < 120:
            h = copy.deepcopy(cur)
            h[-1]["views"][0] = codec.T("call", n=0, a=[codec.T("name", s="Tampered")])
            recs += h
    expect_reject("streams: first stream's view tampered at step 3", "C11", "TraceStreams",
                  [r for r in recs], key=lambda v: (v["tid"], v["step"]), group=lambda r: r["tid"],
                  rid=lambda r: (r["tid"], r["step"]))
    # only the tampered step has to be rejected: recount
    name, status, n, bad = results[-1]
    if status != "SKIPPED (no previous run)":
        verd = {}
        d = os.path.join(common.OUT_ROOT, "selftest", "val_" + name)
        for f in glob.glob(os.path.join(d, "verdict*.ndjson")):
            for v in codec.load_ndjson(f):
                verd[(v["tid"], v["step"])] = v
        tampered = [k for k in verd if k[1] == 3]
        notrej = [k for k in tampered if verd[k]["ok"]]
        results[-1] = (name, "ok" if tampered and not notrej else "NOT REJECTED", len(tampered), len(notrej))

    # 3. typed call sites: drop the last emitted argument
    recs = []
    for r in _load("C07", "val_calls"):
        if r["exc"] == "" and r["sig"]["n"] >= 1 and len(recs) < 40:
            r2 = copy.deepcopy(r)

            def drop(t):
                if t["k"] == "call" and t["a"][0]["k"] == "attr" and t["a"][0]["s"] == "m" and t["n"] >= 1:
                    t["a"] = t["a"][:t["n"]] + t["a"][t["n"] + 1:]
                    t["n"] -= 1
                    return True
                return any(drop(c) for c in t["a"])
            if drop(r2["out"]):
                recs.append(r2)
    expect_reject("typed call: one emitted argument removed", "C07", "TraceTyped", recs,
                  key=lambda v: v["verdict"]["id"])

    # 4. capture histories: the emitted lambda of the first built query changed at the last step
    recs = []
    cur = []
    for r in _load("C04", "val_capture"):
        if r["step"] == 1:
            cur = [r]
        else:
            cur.append(r)
        if r["step"] == 3 and r["emitted"] and r["emitted"][0]["res"] == "ok" and len(recs) < 120:
            h = copy.deepcopy(cur)
            o, ch = _bump_int(h[-1]["emitted"][0]["lam"])
            if ch:
                h[-1]["emitted"][0]["lam"] = o
                recs += h
    if recs:
        verdicts, _ = common.validate("selftest", "capture", "TraceCapture", recs, group=lambda r: r["tid"],
                                      rec_id=lambda r: (r["tid"], r["step"]),
                                      verdict_id=lambda v: (v["tid"], v["step"]), spec="TSpec")
        tampered = [k for k in verdicts if k[1] == 3]
        notrej = [k for k in tampered if verdicts[k]["ok"]]
        results.append(("capture: frozen constant changed at the last step", "ok" if tampered and not notrej
                        else "NOT REJECTED", len(tampered), len(notrej)))

    # 5. embedded values: the literal replaced by another literal
    recs = []
    for r in _load("C13", "val_embed"):
        if r["exc"] == "" and r["lit"]["k"] != "absent" and len(recs) < 40:
            r2 = copy.deepcopy(r)
            r2["lit"] = codec.T("str", s="tampered")
            recs.append(r2)
    expect_reject("embed: literal replaced", "C13", "TraceEmbed", recs)

    # 6. source recovery: the recovered lambda of the first call replaced by another lambda
    recs = []
    for r in _load("C03", "val_source"):
        if r["obs"] and r["obs"][0]["res"] == "ok" and len(recs) < 40:
            r2 = copy.deepcopy(r)
            o, ch = _bump_int(r2["obs"][0]["lam"])
            if ch:
                r2["obs"][0]["lam"] = o
                recs.append(r2)
    expect_reject("source: recovered lambda differs from the passed one", "C03", "TraceSource", recs)

    print("binding demonstration (a corrupted recording must be rejected by the trace specification):")
    okall = True
    for name, status, n, bad in results:
        print(f"  {status:28s} {name}: {n} corrupted records, {bad} not rejected")
        okall = okall and status in ("ok",)
    return 0 if okall else 1
