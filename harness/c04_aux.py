"""module whose attribute is captured (C04: aux.M)"""
M = 5
