"""C04: captured variables are frozen by value at the call, respecting scope (spec/Capture.tla)."""

import json
import logging
import os

import codec
import common
import tlcrun

PLANS = {"quick": (3, 2, 9000), "thorough": (4, 2, 150000)}


def to_py(val):
    if val["k"] == "int":
        return val["n"]
    if val["k"] == "str":
        return val["s"]
    if val["k"] == "nontransportable":
        return [1, 2]
    raise ValueError(val["k"])


def run_history(tid, actions):
    import c04_aux
    import c04_mod
    from func_adl import EventDataset

    class DS(EventDataset):
        async def execute_result_async(self, a, title=None):
            return 0

    # reset the world
    c04_mod.G, c04_mod.w, c04_mod.KBase.C, c04_mod.K.Inner.D, c04_aux.M = 2, 7, 3, 4, 5
    f = c04_mod.make()
    built = []
    recs = []
    for step, a in enumerate(actions, start=1):
        if a["act"] == "Build":
            try:
                built.append(("ok", f[a["sh"]](DS())))
            except Exception as e:
                built.append((type(e).__name__, None))
        elif a["act"] == "Rebind":
            x = to_py(a["val"])
            slot = a["slot"]
            if slot == "v":
                f["set_v"](x)
            elif slot == "wc":
                f["set_w"](x)
            elif slot == "G":
                c04_mod.G = x
            elif slot == "wg":
                c04_mod.w = x
            elif slot == "C":
                c04_mod.KBase.C = x
            elif slot == "D":
                c04_mod.K.Inner.D = x
            elif slot == "M":
                c04_aux.M = x
        elif a["act"] == "DelClosure":
            try:
                f["del_v"]()
            except NameError:
                pass
        elif a["act"] == "DelGlobal":
            if hasattr(c04_mod, "G"):
                del c04_mod.G
        emitted = []
        for res, s in built:
            if res == "ok":
                emitted.append({"res": "ok", "lam": codec.enc(s.query_ast.args[1])})
            else:
                emitted.append({"res": res, "lam": codec.T("absent")})
        recs.append({"tid": tid, "step": step, "a": a, "emitted": emitted})
    return recs


def run(prop, tier):
    logging.disable(logging.WARNING)
    rep = common.Report(prop, tier)
    steps, maxbuilt, cap = PLANS[tier]
    # design-level check of the Capture state machine
    d = tlcrun.fresh_dir(common.outdir(prop, "mc"))
    cfg = os.path.join(d, "mc.cfg")
    tlcrun.write_cfg(cfg, constants={"MaxSteps": steps + 1, "MaxBuilt": maxbuilt}, properties=["Frozen"],
                     view="NoHistView")
    st = tlcrun.run("Capture", cfg, d, workers=16)
    rep.add_tlc(st)
    d = tlcrun.fresh_dir(common.outdir(prop, "gen"))
    cfg = os.path.join(d, "gen.cfg")
    tlcrun.write_cfg(cfg, constants={"MaxSteps": steps, "MaxBuilt": maxbuilt}, invariants=["Export"])
    out = os.path.join(d, "hist.ndjson")
    st = tlcrun.run("GenCapture", cfg, d, env={"OUT_FILE": out}, workers=16)
    rep.add_tlc(st)
    hs = [json.loads(x) for x in sorted({line.strip() for line in open(out) if line.strip()})]
    total = len(hs)

    def feat(h):
        return tuple((a["act"], a["sh"], a["slot"], a["val"]["k"] if a["act"] == "Rebind" else "") for a in h)[:3]
    # histories that build the SAME shape twice with a rebinding in between exercise anything the library
    # remembers about a function between calls: always kept
    def rebuilt(h):
        b = [a["sh"] for a in h if a["act"] == "Build"]
        return len(b) >= 2 and len(set(b)) < len(b) and any(a["act"] != "Build" for a in h)
    prio = [h for h in hs if rebuilt(h)]
    rest = [h for h in hs if not rebuilt(h)]
    hs = prio + common.subsample_stratified(rest, max(0, cap - len(prio)), salt="c04", key=feat)
    rep.extra["same_shape_built_twice"] = len(prio)
    recs = []
    for tid, h in enumerate(hs, start=1):
        recs += run_history(tid, h)
    # restore module state for whoever imports these modules later
    verdicts, vst = common.validate(prop, "capture", "TraceCapture", recs, group=lambda r: r["tid"],
                                    rec_id=lambda r: (r["tid"], r["step"]),
                                    verdict_id=lambda v: (v["tid"], v["step"]), per_shard=2000, spec="TSpec")
    rep.add_tlc(vst)
    rep.traces = len(hs)
    rep.evaluations = len(recs)
    counts = {}
    bad = set()
    byid = {(r["tid"], r["step"]): r for r in recs}
    for key, v in sorted(verdicts.items()):
        if v["ok"]:
            counts["ACCEPT"] = counts.get("ACCEPT", 0) + 1
            continue
        for cl in v["clauses"]:
            counts["REJECT:" + cl] = counts.get("REJECT:" + cl, 0) + 1
        if key[0] not in bad:
            bad.add(key[0])
            r = byid[key]
            h = hs[key[0] - 1]
            rep.reject(key, v["clauses"][0],
                       {"property": prop, "history": h, "failed_step": key[1], "clauses": v["clauses"],
                        "emitted": [(codec.src(e["lam"]) if e["res"] == "ok" else e["res"]) for e in r["emitted"]]},
                       tags=set())
    rep.nontrivial = len(hs) - len(bad)
    for h in hs[:2] + hs[-2:]:
        rep.sample([{k: (codec.src(v) if isinstance(v, dict) and v.get("k") in ("int", "str") else
                         (v if not isinstance(v, dict) else v.get("k"))) for k, v in a.items() if v not in ("",)}
                    for a in h])
    acts = {}
    for h in hs:
        for a in h:
            k = a["act"] + (":" + a["sh"] if a["act"] == "Build" else (":" + a["slot"] if a["act"] == "Rebind" else ""))
            acts[k] = acts.get(k, 0) + 1
    rep.extra["action_counts_in_replayed_histories"] = acts
    rep.extra.update(histories_generated=total, replayed=len(hs), verdicts=counts, steps=steps,
                     shapes="S1..S12 of spec/Capture.tla (closure cell, global, nested class constants, module "
                            "attribute, names re-bound by a nested lambda / comprehension target / own parameter, "
                            "closure and global of the same name)")
    rep.exhaustive = len(hs) == total
    rep.rule = ("histories = behaviours of spec/Capture.tla (Build a query from one of 11 lambda shapes / rebind a "
                "closure cell, global, class constant, module attribute to an int, a str or a non-transportable list / "
                "delete the global) exported by TLC and replayed with real closures, nonlocal / global rebinding; "
                "after EVERY step the emitted lambda of every built query is validated by TLC (TraceCapture) against "
                "ExpectedLam(shape, snapshot at its Build): right at build, unchanged ever after, ValueError iff a "
                "captured value is not transportable; non-trivial = accepted history (each contains a Build)")
    rep.assumptions = ["11 fixed lambda shapes; values int / str / list"]
    return rep.finish()
