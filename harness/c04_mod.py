"""Call sites with real lambdas for C04 (captured variables).  Shapes S1..S12 of spec/Capture.tla.
Globals G, w, class constants K.C / K.Inner.D and the module attribute aux.M are re-bound by the harness;
the closure cells v and w through the setters returned by make()."""
import c04_aux as aux  # noqa: F401

G = 2
w = 7


class KBase:
    C = 3


class K(KBase):         # K.C is inherited (found through the class hierarchy), K.Inner.D is K.Inner's own
    class Inner:
        D = 4


def make():
    v = 1
    w = 6

    def set_v(x):
        nonlocal v
        v = x

    def del_v():
        nonlocal v
        del v

    def set_w(x):
        nonlocal w
        w = x

    def b_S1(ds):
        return ds.Select(lambda e: e.f(v))

    def b_S2(ds):
        return ds.Select(lambda e: e.f(G))

    def b_S3(ds):
        return ds.Select(lambda e: e.f(K.C) + e.g(K.Inner.D))

    def b_S4(ds):
        return ds.Select(lambda e: e.f(aux.M))

    def b_S5(ds):
        return ds.Select(lambda e: e.jets.Select(lambda v: v.pt + G))

    def b_S6(ds):
        return ds.Select(lambda e: e.jets.Select(lambda j: j.pt + v))

    def b_S7(ds):
        return ds.Select(lambda e: [G.pt for G in e.jets])

    def b_S9(ds):
        return ds.Select(lambda G: G.pt + v)

    def b_S10(ds):
        return ds.Select(lambda e: e.f(w))

    def b_S11(ds):
        return ds.Select(lambda e: e.f(v, v))

    def b_S12(ds):
        return ds.Select(lambda e: [j.pt + G for j in e.jets if j.eta > v])

    def b_S13(ds):
        return ds.Select(lambda G: (G.jets.Select(lambda G: G.pt), G + v))

    def b_S14(ds):
        return ds.Select(lambda G: ([G.pt for G in G.jets], G))

    def b_S18(ds):
        return ds.Select(lambda G: ((lambda: 3)(), G, v))

    def b_S19(ds):
        return ds.Select(lambda G: ((lambda: G.pt)(), G + v))

    def b_S15(ds):
        return ds.Select(lambda e: e.jets.Select(lambda j: j.trks.Where(lambda t: t.pt > G)))

    def b_S16(ds):
        return ds.Select(lambda e: e.jets.Select(lambda j: j.trks.Select(lambda t: t.pt + v + K.C)))

    def b_S20(ds):
        return ds.Select(lambda e: (lambda j, *, G: j.pt + G)(e, G=v))

    def b_S21(ds):
        return ds.Select(lambda e: (lambda j, G=G: j.pt + G)(e))

    def b_S22(ds):
        return ds.Select(lambda e: [G.pt for G in e.f(G)])

    def b_S23(ds):
        return ds.Select(lambda e: (lambda j, c=(lambda G: G * 2): c(j) + G)(e))

    def d17(e):
        return e.f(v) + G

    def b_S17(ds):
        return ds.Select(d17)

    return {"S23": b_S23, "S20": b_S20, "S21": b_S21, "S22": b_S22, "S18": b_S18, "S19": b_S19, "S17": b_S17, "S15": b_S15, "S16": b_S16, "S13": b_S13, "S14": b_S14, "set_v": set_v, "del_v": del_v, "set_w": set_w, "S1": b_S1, "S2": b_S2, "S3": b_S3, "S4": b_S4, "S5": b_S5,
            "S6": b_S6, "S7": b_S7, "S9": b_S9, "S10": b_S10, "S11": b_S11, "S12": b_S12}
